package PKG

// Harness API for the NATIVE replay build: the same harness functions run against the natively compiled
// code under test; every nondeterministic input is taken from a script produced by the solver's model.

import (
	"encoding/json"
	"fmt"
	"math"
	"math/rand"
	"os"
	"reflect"
	"runtime/debug"
	"strconv"
	"strings"
)

type vScriptVal struct {
	Kind  string  `json:"kind"`
	Label string  `json:"label"`
	I     int64   `json:"i"`
	F     float64 `json:"f"`
	B     bool    `json:"b"`
	Rat   string  `json:"rat"`
	Bits  string  `json:"bits"`
}

type vObserved struct {
	Tag  string  `json:"tag"`
	Sort string  `json:"sort"`
	F    float64 `json:"f"`
	I    int64   `json:"i"`
	B    bool    `json:"b"`
	Val  string  `json:"val"`
}

type vReplayFile struct {
	Entry     string       `json:"entry"`
	Script    []vScriptVal `json:"script"`
	Tol       float64      `json:"tol"`
	RealModel bool         `json:"real_model"`
}

type vReplayResult struct {
	File     string      `json:"file"`
	Entry    string      `json:"entry"`
	Failures []string    `json:"failures"`
	Diverged string      `json:"diverged"`
	Panic    string      `json:"panic"`
	Stack    string      `json:"stack,omitempty"`
	Observed []vObserved `json:"observed"`
	Reached  []string    `json:"reached"`
	Consumed int         `json:"consumed"`
	Cut      string      `json:"cut"`
}

type vDivergence struct{ msg string }
type vCutSignal struct{ msg string }

var (
	vCur    *vReplayFile
	vPos    int
	vRes    *vReplayResult
	vTolRel = 1e-9
)

func vNext(kind string) *vScriptVal {
	for vPos < len(vCur.Script) && vCur.Script[vPos].Kind == "oracle" {
		vPos++
	}
	if vPos >= len(vCur.Script) {
		if len(vRes.Failures) > 0 {
			// the script of a counter-example ends where the violated assertion was; nothing more to check
			panic(vCutSignal{"script ended after the reported failure"})
		}
		panic(vDivergence{fmt.Sprintf("script exhausted at request #%d for %s", vPos, kind)})
	}
	s := &vCur.Script[vPos]
	if s.Kind != kind {
		panic(vDivergence{fmt.Sprintf("script entry #%d is %s(%s), native run asked for %s", vPos, s.Kind, s.Label, kind)})
	}
	vPos++
	return s
}

func vInt(label string) int       { return int(vNext("int").I) }
func vFloat(label string) float64 { return vNext("float").fval() }

func (s *vScriptVal) fval() float64 {
	if s.Bits != "" {
		var u uint64
		fmt.Sscanf(s.Bits, "%x", &u)
		return math.Float64frombits(u)
	}
	return s.F
}
func vBool(label string) bool { return vNext("bool").B }
func vChoice(label string, n int) int {
	return int(vNext("choice").I)
}
func vConcrete(v int) int { return v }
func vAssume(c bool) {
	if !c {
		panic(vDivergence{"an assumption that held in the model is false natively"})
	}
}
func vAssert(c bool, msg string) {
	if !c {
		vRes.Failures = append(vRes.Failures, msg)
	}
}
func vApproxEq(a, b float64) bool {
	if math.IsNaN(a) || math.IsNaN(b) {
		return math.IsNaN(a) && math.IsNaN(b)
	}
	if a == b {
		return true
	}
	if math.IsInf(a, 0) || math.IsInf(b, 0) {
		return false
	}
	d := math.Abs(a - b)
	return d <= vTolRel*math.Max(math.Abs(a), math.Abs(b)) || d <= 1e-12
}
func vAssertEqF(a, b float64, msg string) {
	if !vApproxEq(a, b) {
		vRes.Failures = append(vRes.Failures, msg)
	}
}
func vReach(tag string) { vRes.Reached = append(vRes.Reached, tag) }
func vObserveI(tag string, v int) {
	vRes.Observed = append(vRes.Observed, vObserved{Tag: tag, Sort: "Int", I: int64(v)})
}
func vObserveF(tag string, v float64) {
	o := vObserved{Tag: tag, Sort: "Float", Val: fmt.Sprint(v)}
	if !math.IsNaN(v) && !math.IsInf(v, 0) {
		o.F = v
	}
	vRes.Observed = append(vRes.Observed, o)
}
func vObserveB(tag string, v bool) {
	vRes.Observed = append(vRes.Observed, vObserved{Tag: tag, Sort: "Bool", B: v})
}
func vCut(reason string)      { panic(vCutSignal{reason}) }
func vNote(msg string)        {}
func vAnd(a, b bool) bool     { return a && b }
func vOr(a, b bool) bool      { return a || b }
func vImplies(a, b bool) bool { return !a || b }
func vIteF(c bool, a, b float64) float64 {
	if c {
		return a
	}
	return b
}
func vIteI(c bool, a, b int) int {
	if c {
		return a
	}
	return b
}
func vSymbolic() bool { return false }

// vDisjoint natively: no heap address (pointer target, slice backing array, map) is reachable from both values
func vDisjoint(a, b interface{}) bool {
	sa, sb := map[uintptr]bool{}, map[uintptr]bool{}
	vCollect(reflect.ValueOf(a), sa, 0)
	vCollect(reflect.ValueOf(b), sb, 0)
	for p := range sa {
		if sb[p] {
			return false
		}
	}
	return true
}

func vCollect(v reflect.Value, seen map[uintptr]bool, depth int) {
	if !v.IsValid() || depth > 200 {
		return
	}
	switch v.Kind() {
	case reflect.Ptr:
		if v.IsNil() || seen[v.Pointer()] {
			return
		}
		seen[v.Pointer()] = true
		vCollect(v.Elem(), seen, depth+1)
	case reflect.Interface:
		if !v.IsNil() {
			vCollect(v.Elem(), seen, depth+1)
		}
	case reflect.Slice:
		if v.IsNil() || v.Cap() == 0 {
			return
		}
		seen[v.Pointer()] = true
		for i := 0; i < v.Len(); i++ {
			vCollect(v.Index(i), seen, depth+1)
		}
	case reflect.Array:
		for i := 0; i < v.Len(); i++ {
			vCollect(v.Index(i), seen, depth+1)
		}
	case reflect.Struct:
		for i := 0; i < v.NumField(); i++ {
			vCollect(v.Field(i), seen, depth+1)
		}
	case reflect.Map:
		if v.IsNil() || seen[v.Pointer()] {
			return
		}
		seen[v.Pointer()] = true
		it := v.MapRange()
		for it.Next() {
			vCollect(it.Key(), seen, depth+1)
			vCollect(it.Value(), seen, depth+1)
		}
	}
}
func vNondetCount() int { return 0 }

// vRandUnscripted: in harnesses whose native run executes real code that the engine replaced by a stub
// (cross-package redirects), math/rand draws that the script does not contain get fixed default values.
var vRandTolerant bool

func vRandUnscripted(on bool) { vRandTolerant = on }

// vPar natively: the two bodies really run concurrently (under `go test -race` for C16 counter-examples).
// Bodies must not draw scripted values; math/rand draws inside them get fixed defaults.
var vInPar bool

func vPar(shared interface{}, a, b func()) {
	vInPar, rand.VerifBypass = true, true
	start := make(chan struct{})
	done := make(chan struct{}, 2)
	run := func(f func()) {
		<-start
		defer func() { recover(); done <- struct{}{} }()
		f()
	}
	go run(a)
	go run(b)
	close(start)
	<-done
	<-done
	vInPar, rand.VerifBypass = false, false
}

// vRandSameInts: a bound on the explored draws (all integer draws of the section return one value); natively the
// script already satisfies it.
func vRandSameInts(on bool) {}

// vParallelSection: natively the code between on and off starts real goroutines (go statements of the code under
// test); math/rand draws inside it are answered by the real generator instead of the script, as in vPar.
func vParallelSection(on bool) { vInPar, rand.VerifBypass = on, on }

func vRandHook(kind string) (float64, int64) {
	if vInPar {
		return 0.25, 0
	}
	if vRandTolerant {
		p := vPos
		for p < len(vCur.Script) && vCur.Script[p].Kind == "oracle" {
			p++
		}
		if p >= len(vCur.Script) || vCur.Script[p].Kind != kind {
			return 0.25, 0
		}
	}
	s := vNext(kind)
	return s.fval(), s.I
}

// vRunReplays runs every script named in $VERIF_REPLAY (a file listing one script path per line).
func vRunReplays(entries map[string]func()) {
	list, err := os.ReadFile(os.Getenv("VERIF_REPLAY"))
	if err != nil {
		fmt.Println("VERIF-REPLAY-ERROR cannot read list:", err)
		return
	}
	rand.VerifHook = vRandHook
	for _, p := range strings.Fields(string(list)) {
		res := &vReplayResult{File: p}
		b, err := os.ReadFile(p)
		rf := &vReplayFile{}
		if err == nil {
			err = json.Unmarshal(b, rf)
		}
		if err != nil {
			res.Diverged = "cannot read script: " + err.Error()
		} else {
			res.Entry = rf.Entry
			f := entries[rf.Entry]
			if f == nil {
				res.Diverged = "unknown entry " + rf.Entry
			} else {
				vCur, vPos, vRes = rf, 0, res
				vRandTolerant = false
				if rf.Tol > 0 {
					vTolRel = rf.Tol
				} else {
					vTolRel = 1e-9
				}
				func() {
					defer func() {
						if r := recover(); r != nil {
							switch x := r.(type) {
							case vDivergence:
								res.Diverged = x.msg
							case vCutSignal:
								res.Cut = x.msg
							default:
								res.Panic = fmt.Sprint(r)
								res.Stack = string(debug.Stack())
								if len(res.Stack) > 3000 {
									res.Stack = res.Stack[:3000]
								}
							}
						}
					}()
					f()
				}()
				res.Consumed = vPos
				// under the race detector the same script is run again a number of times: whether the detector
				// sees an unsynchronised pair depends on the schedule the runtime happens to pick
				if n, _ := strconv.Atoi(os.Getenv("VERIF_REPLAY_REPEAT")); n > 1 && res.Panic == "" && res.Diverged == "" {
					for k := 1; k < n; k++ {
						scratch := &vReplayResult{File: p}
						vCur, vPos, vRes = rf, 0, scratch
						vRandTolerant = false
						func() {
							defer func() { recover() }()
							f()
						}()
					}
					vRes = res
				}
			}
		}
		out, _ := json.Marshal(res)
		fmt.Println("VERIF-REPLAY-RESULT " + string(out))
	}
}

// uninterpreted functions have no native counterpart: entries that use them cannot be replayed natively
func vUF1(name string, x float64) float64 {
	panic(vDivergence{"uninterpreted function " + name + " has no native counterpart"})
}
func vUF2(name string, x, y float64) float64 {
	panic(vDivergence{"uninterpreted function " + name + " has no native counterpart"})
}

// vRealModel: the native run is IEEE arithmetic; the script file records which model produced it
func vRealModel() bool { return vCur != nil && vCur.RealModel }

func vConcreteBool(b bool) bool { return b }

// self-composition natively: the second run re-reads the same part of the script
func vRandMark() int    { return vPos }
func vRandRewind(k int) { vPos = k }
