package PKG

// Harness API for the symbolic build: body-less functions intercepted by the engine (gosym).

func vInt(label string) int
func vFloat(label string) float64
func vBool(label string) bool
func vChoice(label string, n int) int
func vConcrete(v int) int
func vAssume(c bool)
func vAssert(c bool, msg string)
func vAssertEqF(a, b float64, msg string)
func vReach(tag string)
func vObserveI(tag string, v int)
func vObserveF(tag string, v float64)
func vObserveB(tag string, v bool)
func vCut(reason string)
func vNote(msg string)
func vAnd(a, b bool) bool
func vOr(a, b bool) bool
func vImplies(a, b bool) bool
func vIteF(c bool, a, b float64) float64
func vIteI(c bool, a, b int) int
func vSymbolic() bool
func vDisjoint(a, b interface{}) bool
func vChan(label string) chan struct{}
func vNondetCount() int
func vUF1(name string, x float64) float64
func vUF2(name string, x, y float64) float64
func vRealModel() bool
func vRandUnscripted(on bool)
func vParallelSection(on bool)
func vRandSameInts(on bool)
func vConcreteBool(b bool) bool
func vPar(shared interface{}, a, b func())
func vRandMark() int
func vRandRewind(k int)
