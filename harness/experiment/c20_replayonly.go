package experiment

import (
	"context"

	"github.com/yaricom/goNEAT/v4/neat/genetics"
)

// native counterpart of the engine's redirect (the original is renamed by the replay overlay)
func epochExecutorForContext(ctx context.Context) (genetics.PopulationEpochExecutor, error) {
	return c20ExecutorFor(ctx)
}
