package experiment

import (
	"github.com/yaricom/goNEAT/v4/neat/genetics"
	"github.com/yaricom/goNEAT/v4/neat/network"
)

// C19, the complexity half of the aggregates and the per-generation population statistics: champions carry REAL
// genomes (their phenotype is built by the real Genesis on demand), so "complexity" is what the library computes
// from the network - nodes plus links of the expressed (enabled) part.

// c19Organism: a genome of one of three shapes (all genes enabled / one gene disabled / a hidden node and one gene
// disabled); returns the organism and its complexity written from the definition (number of nodes + number of
// enabled connection genes). The shapes have pairwise different complexities.
func c19Organism(id int, species *genetics.Species, shapes int) (*genetics.Organism, int) {
	in := network.NewNNode(1, network.InputNeuron)
	bias := network.NewNNode(2, network.BiasNeuron)
	out := network.NewNNode(3, network.OutputNeuron)
	nodes := []*network.NNode{in, bias, out}
	mk := func(a, b *network.NNode, innov int64, enabled bool) *genetics.Gene {
		g := genetics.NewGene(0.5, a, b, false, innov, 0)
		g.IsEnabled = enabled
		return g
	}
	var genes []*genetics.Gene
	switch vChoice("genome shape", shapes) {
	case 0:
		genes = []*genetics.Gene{mk(in, out, 1, true), mk(bias, out, 2, true)}
	case 1:
		hid := network.NewNNode(4, network.HiddenNeuron)
		nodes = append(nodes, hid)
		genes = []*genetics.Gene{mk(in, out, 1, true), mk(bias, out, 2, false), mk(in, hid, 3, true), mk(hid, out, 4, true)}
	default:
		genes = []*genetics.Gene{mk(in, out, 1, true), mk(bias, out, 2, false)}
	}
	cx := len(nodes)
	for _, g := range genes {
		if g.IsEnabled {
			cx++
		}
	}
	f := vFloat("organism.fitness")
	vAssume(vAnd(f >= 0, f <= 1000))
	o, err := genetics.NewOrganism(f, genetics.NewGenome(id, nil, nodes, genes), 0)
	vAssert(err == nil, "harness: organism can be built")
	o.Species = species
	return o, cx
}

// VC19_Complexity: Trial.ChampionsComplexities, Generation.ChampionComplexity, Experiment.BestComplexity and
// Trial.BestOrganism against the recorded generations.
func vc19Complexity(maxTrials, maxGens, shapes int) {
	nt := vChoice("trials", maxTrials+1)
	e := &Experiment{}
	var cxs [][]int
	for t := 0; t < nt; t++ {
		tr := Trial{Id: t}
		ng := vChoice("generations", maxGens+1)
		var row []int
		for k := 0; k < ng; k++ {
			age := vInt("species.age")
			vAssume(vAnd(age >= 1, age <= 100))
			o, cx := c19Organism(10*t+k, &genetics.Species{Age: age}, shapes)
			g := Generation{Id: k, TrialId: t, Champion: o, Solved: vBool("solved")}
			tr.Generations = append(tr.Generations, g)
			row = append(row, cx)
		}
		e.Trials = append(e.Trials, tr)
		cxs = append(cxs, row)
	}
	// the aggregates do not depend on which other statistics were asked for before
	if vChoice("winner statistics were looked up first", 2) == 1 {
		for i := range e.Trials {
			_, _, _, _ = e.Trials[i].WinnerStatistics()
		}
	}
	bc, bf, ba := e.BestComplexity(), e.BestFitness(), e.BestSpeciesAge()
	vAssert(len(bc) == nt && len(bf) == nt && len(ba) == nt, "one value per trial")
	for i := range e.Trials {
		tr := &e.Trials[i]
		cc := tr.ChampionsComplexities()
		vAssert(len(cc) == len(tr.Generations), "ChampionsComplexities: one value per generation")
		for k := range tr.Generations {
			vAssert(tr.Generations[k].ChampionComplexity() == cxs[i][k], "Generation.ChampionComplexity = nodes + enabled connections of the champion")
			vAssertEqF(cc[k], float64(cxs[i][k]), "Trial.ChampionsComplexities lists the champions' complexity in order")
		}
		if len(tr.Generations) == 0 {
			vAssertEqF(bc[i], 0, "best complexity of a trial without generations is 0")
			_, ok := tr.BestOrganism(false)
			vAssert(!ok, "a trial without generations has no best organism")
			continue
		}
		// the best organism of the trial: a champion with the greatest fitness; complexity, fitness and age all of ONE such champion
		isMax, one := true, false
		for k, g := range tr.Generations {
			isMax = vAnd(isMax, bf[i] >= g.Champion.Fitness)
			one = vOr(one, vAnd(vAnd(bf[i] == g.Champion.Fitness, bc[i] == float64(cxs[i][k])), ba[i] == float64(g.Champion.Species.Age)))
		}
		vAssert(isMax, "BestFitness = the greatest champion fitness of the trial")
		vAssert(one, "BestComplexity, BestFitness and BestSpeciesAge of a trial describe one champion with the best fitness")
		// only solvers: the best among the champions of solved generations
		org, ok := tr.BestOrganism(true)
		anySolved, best, among := false, true, false
		for _, g := range tr.Generations {
			anySolved = vOr(anySolved, g.Solved)
		}
		vAssert(ok == anySolved, "BestOrganism(only solvers) exists iff a generation of the trial was solved")
		if ok {
			for _, g := range tr.Generations {
				best = vAnd(best, vImplies(g.Solved, org.Fitness >= g.Champion.Fitness))
				among = vOr(among, vAnd(g.Solved, org == g.Champion))
			}
			vAssert(vAnd(best, among), "BestOrganism(only solvers) = a champion of a solved generation with the greatest fitness among those")
		}
	}
	vReach("end")
}

func VC19_Complexity_Quick()    { vc19Complexity(2, 2, 2) }
func VC19_Complexity_Thorough() { vc19Complexity(2, 2, 3) }

// VC19_PopulationStatistics: Generation.FillPopulationStatistics and Generation.Average / Trial.Average against the
// population they were collected from.
func vc19PopStats(maxSpecies, maxOrgs, shapes int) {
	ns := 1 + vChoice("species", maxSpecies)
	pop := &genetics.Population{}
	type rec struct {
		o  *genetics.Organism
		cx int
	}
	var members [][]rec
	id := 0
	for s := 0; s < ns; s++ {
		age := vInt("species.age")
		vAssume(vAnd(age >= 1, age <= 100))
		sp := genetics.NewSpecies(s + 1)
		sp.Age = age
		no := 1 + vChoice("organisms", maxOrgs)
		var row []rec
		for k := 0; k < no; k++ {
			o, cx := c19Organism(id, sp, shapes)
			id++
			sp.Organisms = append(sp.Organisms, o)
			row = append(row, rec{o, cx})
		}
		pop.Species = append(pop.Species, sp)
		members = append(members, row)
	}
	g := &Generation{}
	g.Solved = vBool("solved")
	var winner *genetics.Organism
	if g.Solved {
		// a solved generation has had its champion set by the evaluator already; the statistics must keep it
		winner = members[0][0].o
		g.Champion = winner
	}
	g.FillPopulationStatistics(pop)
	vAssert(g.Diversity == ns, "Diversity = number of species")
	vAssert(len(g.Age) == ns && len(g.Fitness) == ns && len(g.Complexity) == ns, "one age, fitness and complexity value per species")
	if len(g.Age) != ns || len(g.Fitness) != ns || len(g.Complexity) != ns {
		return
	}
	fsum, asum, csum := 0.0, 0.0, 0.0
	overall, champOK := true, false
	for s := 0; s < ns; s++ {
		vAssertEqF(g.Age[s], float64(pop.Species[s].Age), "Age lists the species ages in species order")
		isMax, one := true, false
		for _, m := range members[s] {
			isMax = vAnd(isMax, g.Fitness[s] >= m.o.Fitness)
			one = vOr(one, vAnd(g.Fitness[s] == m.o.Fitness, g.Complexity[s] == float64(m.cx)))
			if g.Champion != nil {
				overall = vAnd(overall, g.Champion.Fitness >= m.o.Fitness)
				champOK = vOr(champOK, g.Champion == m.o)
			}
		}
		vAssert(isMax, "Fitness lists the best fitness of each species")
		vAssert(one, "Fitness and Complexity of a species describe one of its organisms with the best fitness")
		vAssert(len(pop.Species[s].Organisms) == len(members[s]), "collecting statistics does not add or drop organisms")
		fsum, asum, csum = fsum+g.Fitness[s], asum+g.Age[s], csum+g.Complexity[s]
	}
	if g.Solved {
		vAssert(g.Champion == winner, "a solved generation keeps the champion the evaluator recorded")
	} else {
		vAssert(g.Champion != nil, "an unsolved generation gets a champion")
		vAssert(vAnd(overall, champOK), "the champion of an unsolved generation is an organism of the population with the greatest fitness")
	}
	f, a, c := g.Average()
	vAssertEqF(f, fsum/float64(ns), "Generation.Average fitness = mean over the species' best")
	vAssertEqF(a, asum/float64(ns), "Generation.Average age = mean species age")
	vAssertEqF(c, csum/float64(ns), "Generation.Average complexity = mean over the species' best")
	tr := Trial{Generations: Generations{*g}}
	tf, ta, tc := tr.Average()
	vAssert(len(tf) == 1 && len(ta) == 1 && len(tc) == 1, "Trial.Average: one value per generation")
	if len(tf) == 1 && len(ta) == 1 && len(tc) == 1 {
		vAssertEqF(tf[0], f, "Trial.Average lists the generations' average fitness")
		vAssertEqF(ta[0], a, "Trial.Average lists the generations' average age")
		vAssertEqF(tc[0], c, "Trial.Average lists the generations' average complexity")
	}
	vReach("end")
}

func VC19_PopulationStatistics_Quick()    { vc19PopStats(2, 2, 2) }
func VC19_PopulationStatistics_Thorough() { vc19PopStats(3, 2, 3) }
