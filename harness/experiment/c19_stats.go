package experiment

import (
	"github.com/yaricom/goNEAT/v4/neat/genetics"
)

// C19: descriptive statistics equal their textbook / empirical-quantile definitions for every series in any
// order, never panic, NaN (0 for the sum) on the empty series; experiment/trial aggregates equal recomputation.

func symSeries(n int) Floats {
	x := make(Floats, n)
	for i := range x {
		v := vFloat("x")
		vAssume(vAnd(v >= -1000, v <= 1000))
		x[i] = v
	}
	return x
}

func isNaN(v float64) bool { return v != v }

// specQuantile: the empirical p-quantile is the smallest element v with #{x_j <= v} >= p*n.
func specQuantileHolds(x Floats, p, got float64) bool {
	n := len(x)
	cnt := func(v float64) int {
		c := 0
		for _, e := range x {
			c += vIteI(e <= v, 1, 0)
		}
		return c
	}
	need := p * float64(n)
	among := false
	for _, e := range x {
		among = vOr(among, e == got)
	}
	ok := vAnd(among, float64(cnt(got)) >= need)
	for _, e := range x {
		// no strictly smaller element already reaches the rank
		ok = vAnd(ok, vImplies(e < got, float64(cnt(e)) < need))
	}
	return ok
}

func vc19Floats(maxN int) {
	n := vChoice("n", maxN+1)
	x := symSeries(n)
	orig := append(Floats{}, x...)
	if n == 0 {
		vAssert(isNaN(x.Min()) && isNaN(x.Max()) && isNaN(x.Mean()) && isNaN(x.Median()) && isNaN(x.Q25()) && isNaN(x.Q75()) && isNaN(x.Variance()) && isNaN(x.StdDev()), "empty series: NaN")
		mv := x.MeanVariance()
		vAssert(len(mv) == 2 && isNaN(mv[0]) && isNaN(mv[1]), "empty series: MeanVariance is NaN, NaN")
		vAssertEqF(x.Sum(), 0, "empty series: sum is 0")
		vReach("end")
		return
	}
	sum := 0.0
	for _, e := range x {
		sum += e
	}
	mean := sum / float64(n)
	mn, mx := x.Min(), x.Max()
	lo, hi, amongMin, amongMax := true, true, false, false
	for _, e := range x {
		lo, hi = vAnd(lo, mn <= e), vAnd(hi, mx >= e)
		amongMin, amongMax = vOr(amongMin, mn == e), vOr(amongMax, mx == e)
	}
	vAssert(vAnd(lo, amongMin), "Min is the smallest element")
	vAssert(vAnd(hi, amongMax), "Max is the greatest element")
	vAssertEqF(x.Sum(), sum, "Sum is the total")
	vAssertEqF(x.Mean(), mean, "Mean is sum/n")
	if n >= 2 {
		ss := 0.0
		for _, e := range x {
			ss += (e - mean) * (e - mean)
		}
		variance := ss / float64(n-1)
		vAssertEqF(x.Variance(), variance, "Variance is the unbiased sample variance")
		mv := x.MeanVariance()
		vAssert(len(mv) == 2, "MeanVariance returns two values")
		vAssertEqF(mv[0], mean, "MeanVariance[0] is the mean")
		vAssertEqF(mv[1], variance, "MeanVariance[1] is the unbiased sample variance")
		sd := x.StdDev()
		vAssert(sd >= 0, "StdDev is non-negative")
		if n <= 3 {
			// for n >= 4 the non-linear identity sqrt(v)^2 = v over four symbolic values exceeds the solver time limit
			vAssertEqF(sd*sd, variance, "StdDev squared is the variance")
		}
	}
	med, q25, q75 := x.Median(), x.Q25(), x.Q75()
	vAssert(specQuantileHolds(orig, 0.5, med), "Median is the empirical 50% quantile")
	vAssert(specQuantileHolds(orig, 0.25, q25), "Q25 is the empirical 25% quantile")
	vAssert(specQuantileHolds(orig, 0.75, q75), "Q75 is the empirical 75% quantile")
	for i := range x {
		vAssertEqF(x[i], orig[i], "the statistics leave the series unchanged")
	}
	// the same buffer refilled with other values: results depend on the values only, not on earlier calls
	for i := range x {
		v := vFloat("x (second filling)")
		vAssume(vAnd(v >= -1000, v <= 1000))
		x[i] = v
	}
	second := append(Floats{}, x...)
	vAssert(specQuantileHolds(second, 0.5, x.Median()), "Median of a refilled buffer is the empirical 50% quantile of its new values")
	vAssert(specQuantileHolds(second, 0.75, x.Q75()), "Q75 of a refilled buffer is the empirical 75% quantile of its new values")
	vReach("end")
}

func VC19_Floats_Quick()    { vc19Floats(3) }
func VC19_Floats_Thorough() { vc19Floats(4) }

// ---------- aggregates ----------

func symGeneration(tr, id int) Generation {
	g := Generation{Id: id, TrialId: tr}
	g.Solved = vBool("solved")
	f := vFloat("champion.fitness")
	vAssume(vAnd(f >= 0, f <= 1000))
	age := vInt("species.age")
	vAssume(vAnd(age >= 1, age <= 100))
	g.Champion = &genetics.Organism{Fitness: f, Species: &genetics.Species{Age: age}}
	d := vInt("diversity")
	vAssume(vAnd(d >= 1, d <= 50))
	g.Diversity = d
	pick := func(tag string) int {
		v := vInt(tag)
		vAssume(vAnd(v >= 0, v <= 10000))
		return v
	}
	g.WinnerNodes, g.WinnerGenes, g.WinnerEvals = pick("winner.nodes"), pick("winner.genes"), pick("winner.evals")
	return g
}

func vc19Aggregates(maxTrials, maxGens int) {
	nt := vChoice("trials", maxTrials+1)
	e := &Experiment{}
	for t := 0; t < nt; t++ {
		tr := Trial{Id: t}
		ng := vChoice("generations", maxGens+1)
		for k := 0; k < ng; k++ {
			tr.Generations = append(tr.Generations, symGeneration(t, k))
		}
		e.Trials = append(e.Trials, tr)
	}
	// recomputation from the recorded generations
	solvedTrials, anySolved := 0, false
	for _, tr := range e.Trials {
		s := false
		for _, g := range tr.Generations {
			s = vOr(s, g.Solved)
		}
		solvedTrials += vIteI(s, 1, 0)
		anySolved = vOr(anySolved, s)
	}
	vAssert(e.TrialsSolved() == solvedTrials, "TrialsSolved counts the trials with a solved generation")
	vAssert(e.Solved() == anySolved, "Solved iff some trial is solved")
	if nt > 0 {
		vAssertEqF(e.SuccessRate(), float64(solvedTrials)/float64(nt), "SuccessRate = solved trials / trials")
	} else {
		vAssertEqF(e.SuccessRate(), 0, "SuccessRate of an experiment without trials is 0")
	}
	ept, bf, ages, div := e.EpochsPerTrial(), e.BestFitness(), e.BestSpeciesAge(), e.AvgDiversity()
	vAssert(len(ept) == nt && len(bf) == nt && len(ages) == nt && len(div) == nt, "one value per trial")
	gens := 0
	for i, tr := range e.Trials {
		gens += len(tr.Generations)
		vAssertEqF(ept[i], float64(len(tr.Generations)), "EpochsPerTrial = number of recorded generations")
		vAssert(tr.Solved() == func() bool {
			s := false
			for _, g := range tr.Generations {
				s = vOr(s, g.Solved)
			}
			return s
		}(), "Trial.Solved iff one of its generations is solved")
		if len(tr.Generations) == 0 {
			vAssertEqF(bf[i], 0, "best fitness of a trial without generations is 0")
			vAssert(isNaN(div[i]), "average diversity of a trial without generations is NaN")
			continue
		}
		isMax, among, ageOK, dsum := true, false, false, 0
		for _, g := range tr.Generations {
			isMax = vAnd(isMax, bf[i] >= g.Champion.Fitness)
			among = vOr(among, bf[i] == g.Champion.Fitness)
			ageOK = vOr(ageOK, vAnd(bf[i] == g.Champion.Fitness, ages[i] == float64(g.Champion.Species.Age)))
			dsum += g.Diversity
		}
		vAssert(vAnd(isMax, among), "BestFitness = the greatest champion fitness of the trial")
		vAssert(ageOK, "BestSpeciesAge = species age of a champion with the best fitness")
		vAssertEqF(div[i], float64(dsum)/float64(len(tr.Generations)), "AvgDiversity = mean diversity of the trial's generations")
		cf, dv := tr.ChampionsFitness(), tr.Diversity()
		for k, g := range tr.Generations {
			vAssertEqF(cf[k], g.Champion.Fitness, "Trial.ChampionsFitness lists the champions' fitness in order")
			vAssertEqF(dv[k], float64(g.Diversity), "Trial.Diversity lists the generations' diversity in order")
		}
	}
	if nt > 0 {
		vAssertEqF(e.AvgGenerationsPerTrial(), float64(gens)/float64(nt), "AvgGenerationsPerTrial = generations / trials")
	}
	// winner statistics: over solved trials, the FIRST solved generation of each
	tn, tg, te, td, cnt := 0, 0, 0, 0, 0
	for _, tr := range e.Trials {
		done := false
		for _, g := range tr.Generations {
			first := vAnd(g.Solved, !done)
			tn += vIteI(first, g.WinnerNodes, 0)
			tg += vIteI(first, g.WinnerGenes, 0)
			te += vIteI(first, g.WinnerEvals, 0)
			td += vIteI(first, g.Diversity, 0)
			cnt += vIteI(first, 1, 0)
			done = vOr(done, g.Solved)
		}
	}
	// Trial.WinnerStatistics: the FIRST solved generation's counts, on the first and on every later call
	for i := range e.Trials {
		tr := &e.Trials[i]
		wn, wg, we, wd, anySolved := 0, 0, 0, 0, false
		for _, g := range tr.Generations {
			first := vAnd(g.Solved, !anySolved)
			wn, wg = vIteI(first, g.WinnerNodes, wn), vIteI(first, g.WinnerGenes, wg)
			we, wd = vIteI(first, g.WinnerEvals, we), vIteI(first, g.Diversity, wd)
			anySolved = vOr(anySolved, g.Solved)
		}
		solvedCount := 0
		for _, g := range tr.Generations {
			solvedCount += vIteI(g.Solved, 1, 0)
		}
		for call := 0; call < 3; call++ {
			if call == 2 {
				// the recorded generations are re-ordered in place (e.g. sorted by the caller); with exactly one solved
				// generation the winner statistics must not change
				if len(tr.Generations) < 2 || !vConcreteBool(solvedCount == 1) {
					break
				}
				tr.Generations[0], tr.Generations[len(tr.Generations)-1] = tr.Generations[len(tr.Generations)-1], tr.Generations[0]
			}
			n1, g1, e1, d1 := tr.WinnerStatistics()
			if len(tr.Generations) == 0 {
				vAssert(n1 == -1 && g1 == -1 && e1 == -1 && d1 == -1, "Trial.WinnerStatistics of a trial without generations is -1")
			} else {
				vAssert(vImplies(anySolved, vAnd(vAnd(n1 == wn, g1 == wg), vAnd(e1 == we, d1 == wd))), "Trial.WinnerStatistics reports the first solved generation (also when asked again)")
			}
		}
	}
	an, ag, ae, ad := e.AvgWinnerStatistics()
	if cnt == 0 {
		vAssert(an == -1 && ag == -1 && ae == -1 && ad == -1, "AvgWinnerStatistics without solved trials is -1")
	} else {
		vAssertEqF(an, float64(tn)/float64(cnt), "AvgWinnerStatistics nodes = mean over solved trials")
		vAssertEqF(ag, float64(tg)/float64(cnt), "AvgWinnerStatistics genes = mean over solved trials")
		vAssertEqF(ae, float64(te)/float64(cnt), "AvgWinnerStatistics evals = mean over solved trials")
		vAssertEqF(ad, float64(td)/float64(cnt), "AvgWinnerStatistics diversity = mean over solved trials")
	}
	vReach("end")
}

func VC19_Aggregates_Quick()    { vc19Aggregates(2, 2) }
func VC19_Aggregates_Thorough() { vc19Aggregates(2, 3) }

// IEEE arithmetic: a series of two equal finite values has variance and standard deviation exactly 0 and mean
// exactly that value - never NaN or a rounding residue, however large the value (a formula that is only
// algebraically equal to the definition, e.g. sum of squares minus squared sum, overflows or cancels here).
func VC19_Floats_F() {
	v := vFloat("x")
	vAssume(vAnd(v >= -1e300, v <= 1e300))
	x := Floats{v, v}
	vAssert(x.Mean() == v, "IEEE: the mean of {x, x} is x")
	vAssert(x.Variance() == 0, "IEEE: the variance of {x, x} is exactly 0 (not NaN, no residue)")
	vAssert(x.StdDev() == 0, "IEEE: the standard deviation of {x, x} is exactly 0")
	mv := x.MeanVariance()
	vAssert(len(mv) == 2 && mv[0] == v && mv[1] == 0, "IEEE: MeanVariance of {x, x} is (x, 0)")
	vReach("end")
}
