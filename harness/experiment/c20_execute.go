package experiment

import (
	"context"
	"errors"
	"time"

	"github.com/yaricom/goNEAT/v4/neat"
	"github.com/yaricom/goNEAT/v4/neat/genetics"
	neatmath "github.com/yaricom/goNEAT/v4/neat/math"
	"github.com/yaricom/goNEAT/v4/neat/network"
)

// C20: Experiment.Execute follows its trial/generation protocol. Execute runs for real; its collaborators
// (context, evaluator, observer, epoch executor) are harness types that append to one event log.

const (
	evSpawn = iota
	evStart
	evEval
	evEpoch
	evEvaluated
	evFinish
	evCancel
)

type c20Event struct {
	kind, trial, gen int
	solved, failed   bool
	trialGens        int // number of generations recorded in the trial at notification time
}

type c20State struct {
	log         []c20Event
	cancelled   bool
	polls       int
	evalErr     error
	epochErr    error
	cancelErr   error
	withEpochEr bool
	curTrial    int
	pollCancel  bool // cancellation observed at a poll (true) or happening during an evaluation / before the start (false)
	cancelledAt int
}

var c20 *c20State

var closedChan = func() chan struct{} { c := make(chan struct{}); close(c); return c }()
var openChan = make(chan struct{})

type c20Ctx struct{ opts *neat.Options }

func (c *c20Ctx) Deadline() (time.Time, bool) { return time.Time{}, false }
func (c *c20Ctx) Done() <-chan struct{} {
	c20.polls++
	if !c20.cancelled && c20.pollCancel && vBool("cancelled at this check") {
		c20.cancelled = true
		c20.cancelledAt = len(c20.log)
	}
	if c20.cancelled {
		c20.log = append(c20.log, c20Event{kind: evCancel})
		return closedChan
	}
	return openChan
}
func (c *c20Ctx) Err() error {
	if c20.cancelled {
		return c20.cancelErr
	}
	return nil
}
func (c *c20Ctx) Value(key interface{}) interface{} { return c.opts }

type c20Evaluator struct{}

func (e *c20Evaluator) GenerationEvaluate(ctx context.Context, pop *genetics.Population, epoch *Generation) error {
	c20.log = append(c20.log, c20Event{kind: evEval, trial: epoch.TrialId, gen: epoch.Id})
	if !c20.cancelled && !c20.pollCancel && vBool("context cancelled during this evaluation") {
		// cancellation is an external event: it may happen at any time, not only when the context is polled
		c20.cancelled = true
		c20.cancelledAt = len(c20.log)
	}
	if vBool("evaluator fails") {
		c20.log[len(c20.log)-1].failed = true
		if vBool("failing evaluator had already flagged the generation solved") {
			epoch.Solved = true
			epoch.Champion = &genetics.Organism{Fitness: 1}
		}
		return c20.evalErr
	}
	// like the shipped evaluators: the solved flag and the champion are written only on a win
	won := vBool("generation solved")
	if won {
		epoch.Solved = true
		epoch.Champion = &genetics.Organism{Fitness: 1}
	}
	c20.log[len(c20.log)-1].solved = won // what this evaluation reported, not what the record it was handed already said
	return nil
}

type c20Observer struct{}

func (o *c20Observer) TrialRunStarted(t *Trial) {
	c20.log = append(c20.log, c20Event{kind: evStart, trial: t.Id, trialGens: len(t.Generations)})
}
func (o *c20Observer) TrialRunFinished(t *Trial) {
	c20.log = append(c20.log, c20Event{kind: evFinish, trial: t.Id, trialGens: len(t.Generations)})
}
func (o *c20Observer) EpochEvaluated(t *Trial, g *Generation) {
	c20.log = append(c20.log, c20Event{kind: evEvaluated, trial: t.Id, gen: g.Id, solved: g.Solved, trialGens: len(t.Generations)})
}

type c20Executor struct{}

func (x *c20Executor) NextEpoch(ctx context.Context, generation int, pop *genetics.Population) error {
	c20.log = append(c20.log, c20Event{kind: evEpoch, gen: generation, trial: -1})
	if c20.withEpochEr && vBool("epoch executor fails") {
		c20.log[len(c20.log)-1].failed = true
		return c20.epochErr
	}
	return nil
}

// stubs the engine substitutes for collaborators outside this package (natively the real ones run)
func c20NewPopulation(g *genetics.Genome, opts *neat.Options) (*genetics.Population, error) {
	c20.log = append(c20.log, c20Event{kind: evSpawn})
	return &genetics.Population{}, nil
}
func c20Verify(p *genetics.Population) (bool, error) { return true, nil }
func c20ExecutorFor(ctx context.Context) (genetics.PopulationEpochExecutor, error) {
	return &c20Executor{}, nil
}

func c20StartGenome() *genetics.Genome {
	tr := neat.NewTrait()
	tr.Id = 1
	in := network.NewSensorNode(1, false)
	out := network.NewNNode(2, network.OutputNeuron)
	in.Trait, out.Trait = tr, tr
	g := genetics.NewGeneWithTrait(tr, 0.5, in, out, false, 1, 0.5)
	return genetics.NewGenome(1, []*neat.Trait{tr}, []*network.NNode{in, out}, []*genetics.Gene{g})
}

func vc20(maxRuns, maxGens int, observer, epochErrors bool) {
	vRandUnscripted(true) // natively the real NewPopulation draws random weights the engine's stub does not
	evalErr := errors.New("evaluation failed")
	if vChoice("evaluator fails with its own context error", 2) == 1 {
		evalErr = context.Canceled // e.g. a per-generation timeout context of the evaluator; the experiment context is alive
	}
	c20 = &c20State{evalErr: evalErr, epochErr: errors.New("epoch failed"), cancelErr: errors.New("context cancelled"), withEpochEr: epochErrors, cancelledAt: -1}
	c20.pollCancel = vChoice("cancellation observed at a poll / external event", 2) == 0
	if !c20.pollCancel && vBool("context cancelled before Execute is called") {
		c20.cancelled, c20.cancelledAt = true, 0
	}
	opts := &neat.Options{PopSize: 1, CompatThreshold: 3, NodeActivators: []neatmath.NodeActivationType{neatmath.SigmoidSteepenedActivation}, NodeActivatorsProb: []float64{1}}
	opts.EpochExecutorType = neat.EpochExecutorTypeSequential
	opts.GenCompatMethod = neat.GenomeCompatibilityMethodFast
	opts.NumRuns = vInt("NumRuns")
	opts.NumGenerations = vInt("NumGenerations")
	vAssume(vAnd(opts.NumRuns >= 0, opts.NumRuns <= maxRuns))
	vAssume(vAnd(opts.NumGenerations >= 0, opts.NumGenerations <= maxGens))
	runs, gens := vConcrete(opts.NumRuns), vConcrete(opts.NumGenerations)
	e := &Experiment{}
	if vChoice("Trials pre-sized longer than NumRuns", 2) == 1 {
		e.Trials = make(Trials, runs+1)
	}
	var obs TrialRunObserver
	if observer {
		obs = &c20Observer{}
	}
	err := e.Execute(&c20Ctx{opts: opts}, c20StartGenome(), &c20Evaluator{}, obs)

	// ---- the protocol, checked on the event log ----
	log := c20.log
	i := 0
	next := func(kind int) bool { return i < len(log) && log[i].kind == kind }
	aborted := false // an evaluator/executor error or a cancellation ended the run
	var wantErr error
	trialsDone := 0
	for t := 0; t < runs && !aborted; t++ {
		if vSymbolic() {
			vAssert(next(evSpawn), "each trial starts on a freshly spawned population")
			i++
		}
		if observer {
			vAssert(next(evStart) && log[i].trial == t && log[i].trialGens == 0, "observer: trial start notified once, before any generation")
			i++
		}
		solved := false
		recorded := 0
		for g := 0; g < gens && !solved && !aborted; g++ {
			if next(evCancel) {
				// the context was found cancelled at the check before this generation
				i++
				aborted, wantErr = true, c20.cancelErr
				break
			}
			vAssert(next(evEval) && log[i].trial == t && log[i].gen == g, "generations are evaluated in order 0,1,2,... within their trial")
			if !next(evEval) {
				aborted = true
				break
			}
			ev := log[i]
			i++
			if ev.failed {
				aborted, wantErr = true, c20.evalErr
				break
			}
			if !ev.solved {
				vAssert(next(evEpoch) && log[i].gen == g, "an unsolved generation is followed by exactly one epoch turnover")
				if next(evEpoch) {
					failed := log[i].failed
					i++
					if failed {
						aborted, wantErr = true, c20.epochErr
						break
					}
				}
			} else {
				vAssert(!next(evEpoch), "the population is not turned over after the solved generation")
			}
			recorded++
			if observer {
				vAssert(next(evEvaluated) && log[i].trial == t && log[i].gen == g && log[i].solved == ev.solved && log[i].trialGens == recorded, "observer: each evaluated generation notified once, in order, after it was recorded")
				if next(evEvaluated) {
					i++
				}
			}
			solved = ev.solved
		}
		if aborted {
			break
		}
		if observer {
			vAssert(next(evFinish) && log[i].trial == t && log[i].trialGens == recorded, "observer: trial finish notified after the last generation")
			i++
			vAssert(!next(evFinish), "observer: trial finish notified exactly once")
		}
		// the trial is recorded
		vAssert(len(e.Trials) >= runs && e.Trials[t].Id == t && len(e.Trials[t].Generations) == recorded, "the results of every trial are recorded in order")
		for g := 0; g < recorded && g < len(e.Trials[t].Generations); g++ {
			vAssert(e.Trials[t].Generations[g].Id == g && e.Trials[t].Generations[g].TrialId == t, "recorded generations carry their ids")
		}
		if solved {
			vAssert(e.Trials[t].Generations[recorded-1].Solved, "the solved generation is the last one recorded")
		}
		trialsDone++
	}
	vAssert(i == len(log), "nothing happens beyond the protocol (no further evaluation, turnover or notification)")
	if c20.cancelledAt >= 0 {
		for k := c20.cancelledAt; k < len(log); k++ {
			// the evaluation during which the context was cancelled is log[cancelledAt-1]; nothing may be evaluated after it
			vAssert(log[k].kind != evEval, "a cancelled context stops the run before the next generation is evaluated")
		}
	}
	if aborted {
		vAssert(err == wantErr && err != nil, "an evaluator error or a cancellation is returned to the caller")
	} else {
		vAssert(err == nil, "a complete run returns no error")
		vAssert(trialsDone == runs, "exactly the configured number of trials is executed")
	}
	vReach("end")
}

func VC20_Execute_Quick()    { vc20(2, 2, true, false) }
func VC20_NoObserver_Quick() { vc20(2, 2, false, false) }
func VC20_Execute_Thorough() { vc20(3, 3, true, true) }
