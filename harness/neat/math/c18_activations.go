package math

import (
	"math"
)

// C18: activation functions match their closed forms, ranges, monotonicity; module activations; registry.

type actSpec struct {
	t        NodeActivationType
	name     string
	lo, hi   float64
	bounded  bool
	monotone bool
	spec     func(x float64) float64 // closed form written from the documentation
}

func sq(x float64) float64 { return x * x }

// c18Table: definitions written from the doc comments / the standard NEAT definitions, not copied from the code.
func c18Table() []actSpec {
	sig := func(c, shift float64) func(float64) float64 {
		return func(x float64) float64 { return 1 / (1 + math.Exp(-(c*x + shift))) }
	}
	return []actSpec{
		{SigmoidPlainActivation, "SigmoidPlainActivation", 0, 1, true, true, func(x float64) float64 { return 1 / (1 + math.Exp(-x)) }},
		{SigmoidReducedActivation, "SigmoidReducedActivation", 0, 1, true, true, func(x float64) float64 { return 1 / (1 + math.Exp(-0.5*x)) }},
		{SigmoidBipolarActivation, "SigmoidBipolarActivation", -1, 1, true, true, func(x float64) float64 { return 2/(1+math.Exp(-4.924273*x)) - 1 }},
		{SigmoidSteepenedActivation, "SigmoidSteepenedActivation", 0, 1, true, true, func(x float64) float64 { return 1 / (1 + math.Exp(-4.924273*x)) }},
		{SigmoidApproximationActivation, "SigmoidApproximationActivation", 0, 1, true, true, func(x float64) float64 {
			switch {
			case x < -4:
				return 0
			case x < 0:
				return (x + 4) * (x + 4) / 32
			case x < 4:
				return 1 - (x-4)*(x-4)/32
			}
			return 1
		}},
		{SigmoidSteepenedApproximationActivation, "SigmoidSteepenedApproximationActivation", 0, 1, true, true, func(x float64) float64 {
			switch {
			case x < -1:
				return 0
			case x < 0:
				return (x + 1) * (x + 1) / 2
			case x < 1:
				return 1 - (x-1)*(x-1)/2
			}
			return 1
		}},
		{SigmoidInverseAbsoluteActivation, "SigmoidInverseAbsoluteActivation", 0, 1, true, true, func(x float64) float64 { return 0.5 + (x/(1+math.Abs(x)))*0.5 }},
		{SigmoidLeftShiftedActivation, "SigmoidLeftShiftedActivation", 0, 1, true, true, func(x float64) float64 { return 1 / (1 + math.Exp(-x-2.4621365)) }},
		{SigmoidLeftShiftedSteepenedActivation, "SigmoidLeftShiftedSteepenedActivation", 0, 1, true, true, sig(4.924273, 2.4621365)},
		{SigmoidRightShiftedSteepenedActivation, "SigmoidRightShiftedSteepenedActivation", 0, 1, true, true, sig(4.924273, -2.4621365)},
		{TanhActivation, "TanhActivation", -1, 1, true, true, func(x float64) float64 { return math.Tanh(0.9 * x) }},
		{GaussianBipolarActivation, "GaussianBipolarActivation", -1, 1, true, false, func(x float64) float64 { return 2*math.Exp(-sq(x*2.5)) - 1 }},
		{GaussianActivation, "GaussianActivation", 0, 1, true, false, func(x float64) float64 { return math.Exp(-sq(x)) }},
		{LinearActivation, "LinearActivation", 0, 0, false, true, func(x float64) float64 { return x }},
		{LinearAbsActivation, "LinearAbsActivation", 0, math.MaxFloat64, true, false, func(x float64) float64 {
			if x < 0 {
				return -x
			}
			return x
		}},
		{LinearClippedActivation, "LinearClippedActivation", -1, 1, true, true, func(x float64) float64 {
			if x < -1 {
				return -1
			}
			if x > 1 {
				return 1
			}
			return x
		}},
		{NullActivation, "NullActivation", 0, 0, true, false, func(x float64) float64 { return 0 }},
		{SignActivation, "SignActivation", -1, 1, true, false, func(x float64) float64 {
			if x < 0 {
				return -1
			}
			if x > 0 {
				return 1
			}
			return 0
		}},
		{SineActivation, "SineActivation", -1, 1, true, false, func(x float64) float64 { return math.Sin(2 * x) }},
		{StepActivation, "StepActivation", 0, 1, true, true, func(x float64) float64 {
			if x < 0 {
				return 0
			}
			return 1
		}},
	}
}

func symX(tag string) float64 {
	x := vFloat(tag)
	vAssume(vAnd(x >= -1e300, x <= 1e300))
	return x
}

func isFinite(v float64) bool { return vAnd(v == v, vAnd(v >= -math.MaxFloat64, v <= math.MaxFloat64)) }

// every registered scalar activator is in the table (so that "every registered function" is what is checked)
func c18Coverage(tab []actSpec) {
	vAssert(len(NodeActivators.activators) == len(tab), "the specification table covers every registered scalar activation")
	for _, s := range tab {
		_, ok := NodeActivators.activators[s.t]
		vAssert(ok, "every specified activation type is registered")
	}
}

// value, finiteness, range and closed form for one function (which = index into the table, -1 = fork over all)
func vc18Value(which int) {
	tab := c18Table()
	c18Coverage(tab)
	k := which
	if k < 0 {
		k = vChoice("function", len(tab))
	}
	s := tab[k]
	x := symX("x")
	y, err := NodeActivators.ActivateByType(x, nil, s.t)
	vAssert(err == nil, "registered type activates without error")
	vObserveF("y", y)
	vAssert(isFinite(y), "value is finite for |x| <= 1e300")
	if s.bounded {
		vAssert(vAnd(y >= s.lo, y <= s.hi), "value lies in the documented range")
	}
	vAssertEqF(y, s.spec(x), "value matches the closed-form definition")
	vReach("end")
}

func vc18Monotone(which int) {
	tab := c18Table()
	k := which
	if k < 0 {
		k = vChoice("function", len(tab))
	}
	s := tab[k]
	vAssume(s.monotone)
	x1, x2 := symX("x1"), symX("x2")
	vAssume(x1 <= x2)
	y1, _ := NodeActivators.ActivateByType(x1, nil, s.t)
	y2, _ := NodeActivators.ActivateByType(x2, nil, s.t)
	vAssert(y1 <= y2, "monotonically non-decreasing")
	vReach("end")
}

// module activations: product, maximum, minimum of 1..n inputs
func vc18Modules(maxN int) {
	n := 1 + vChoice("n", maxN)
	in := make([]float64, n)
	for i := range in {
		in[i] = symX("in")
	}
	orig := append([]float64{}, in...)
	defer func() {
		// the input vector is the caller's: it must be left as it was, so that activating again gives the same value
		for i := range in {
			vAssertEqF(in[i], orig[i], "module activation leaves its input vector unchanged")
		}
	}()
	switch vChoice("module", 3) {
	case 0:
		vAssume(vRealModel() || n <= 1) // products of 64-bit floats are out of reach for the bit-exact query
		out, err := NodeActivators.ActivateModuleByType(in, nil, MultiplyModuleActivation)
		vAssert(err == nil && len(out) == 1, "multiply module returns one value")
		p := in[0]
		for i := 1; i < n; i++ {
			p *= in[i]
		}
		vAssertEqF(out[0], p, "multiply module returns the product of its inputs")
	case 1:
		out, err := NodeActivators.ActivateModuleByType(in, nil, MaxModuleActivation)
		vAssert(err == nil && len(out) == 1, "max module returns one value")
		isMax, among := true, false
		for i := range in {
			isMax = vAnd(isMax, out[0] >= in[i])
			among = vOr(among, out[0] == in[i])
		}
		vAssert(isMax, "max module: result is >= every input")
		vAssert(among, "max module: result is one of the inputs")
	case 2:
		out, err := NodeActivators.ActivateModuleByType(in, nil, MinModuleActivation)
		vAssert(err == nil && len(out) == 1, "min module returns one value")
		isMin, among := true, false
		for i := range in {
			isMin = vAnd(isMin, out[0] <= in[i])
			among = vOr(among, out[0] == in[i])
		}
		vAssert(isMin, "min module: result is <= every input")
		vAssert(among, "min module: result is one of the inputs")
	}
	vReach("end")
}

// registry: names <-> type codes, unknown codes and names give errors
func VC18_Registry() {
	tab := c18Table()
	mods := []struct {
		t    NodeActivationType
		name string
	}{{MultiplyModuleActivation, "MultiplyModuleActivation"}, {MaxModuleActivation, "MaxModuleActivation"}, {MinModuleActivation, "MinModuleActivation"}}
	code := vInt("type code")
	vAssume(vAnd(code >= 0, code <= 255))
	t := NodeActivationType(code)
	registered := false
	for _, s := range tab {
		registered = vOr(registered, t == s.t)
	}
	isModule := false
	for _, m := range mods {
		isModule = vOr(isModule, t == m.t)
	}
	name, err := NodeActivators.ActivationNameFromType(t)
	if err == nil {
		vAssert(vOr(registered, isModule), "only registered type codes have a name")
		back, err2 := NodeActivators.ActivationTypeFromName(name)
		vAssert(err2 == nil, "a name obtained from a type parses back")
		vAssert(back == t, "type -> name -> type is the identity")
	} else {
		vAssert(vAnd(!registered, !isModule), "every registered type code has a name")
	}
	// sequences of requests: the answer for a type code does not depend on what was asked before
	_, _ = NodeActivators.ActivateByType(0.25, nil, LinearActivation)
	_, aerr := NodeActivators.ActivateByType(0.5, nil, t)
	vAssert((aerr == nil) == registered, "ActivateByType succeeds exactly for registered scalar types")
	_, aerr2 := NodeActivators.ActivateByType(0.5, nil, t)
	vAssert((aerr2 == nil) == registered, "ActivateByType gives the same verdict when the same type is requested again")
	y1, e1 := NodeActivators.ActivateByType(0.5, nil, LinearActivation)
	vAssert(e1 == nil && y1 == 0.5, "a registered type still activates correctly after an unknown type was requested")
	_, merr := NodeActivators.ActivateModuleByType([]float64{0.5}, nil, t)
	vAssert((merr == nil) == isModule, "ActivateModuleByType succeeds exactly for registered module types")
	// names: each documented name maps to its type and back; names are pairwise distinct
	for i, s := range tab {
		tt, e := NodeActivators.ActivationTypeFromName(s.name)
		vAssert(e == nil && tt == s.t, "name -> type as documented")
		nn, e2 := NodeActivators.ActivationNameFromType(s.t)
		vAssert(e2 == nil && nn == s.name, "type -> name as documented")
		for j := i + 1; j < len(tab); j++ {
			vAssert(tab[j].name != s.name && tab[j].t != s.t, "names and codes are pairwise distinct")
		}
	}
	for _, m := range mods {
		tt, e := NodeActivators.ActivationTypeFromName(m.name)
		vAssert(e == nil && tt == m.t, "module name -> type as documented")
	}
	vAssert(len(NodeActivators.forward) == len(tab)+len(mods) && len(NodeActivators.inverse) == len(tab)+len(mods), "no further names or codes are registered")
	for _, unknown := range []string{"", "sigmoid", "SigmoidPlainActivation ", "NoSuchActivation", "tanhactivation"} {
		_, e := NodeActivators.ActivationTypeFromName(unknown)
		vAssert(e != nil, "an unknown name yields an error")
	}
	vReach("end")
}

func VC18_Value_F()    { vc18Value(-1) }
func VC18_Value_R()    { vc18Value(-1) }
func VC18_Monotone_R() { vc18Monotone(-1) }

// bit-exact monotonicity for the functions without transcendental or quadratic terms
func VC18_Monotone_F() { vc18Monotone([]int{13, 15, 19}[vChoice("linear/clipped/step", 3)]) }
func VC18_Modules_R()  { vc18Modules(3) }
func VC18_Modules_F()  { vc18Modules(3) }
