package genetics

import (
	neatmath "github.com/yaricom/goNEAT/v4/neat/math"
	"github.com/yaricom/goNEAT/v4/neat/network"
	"gonum.org/v1/gonum/graph"
)

// C11: a phenotype network expresses exactly the enabled part of its genome; the graph view reports it.

func nodesOf(it graph.Nodes) []int64 {
	var ids []int64
	for it.Next() {
		ids = append(ids, it.Node().ID())
	}
	return ids
}

func vc11(c tmplCfg, module bool) {
	g := tGenome("g", 3, c)
	if module {
		c06AddModule(g)
		if vChoice("second module sharing the input and output nodes", 2) == 1 {
			ctrl := network.NewNNode(21, network.HiddenNeuron)
			ctrl.ActivationType = neatmath.MaxModuleActivation
			ctrl.AddIncoming(g.Nodes[0], 1.0)
			ctrl.AddOutgoing(g.Nodes[2], 1.0)
			g.ControlGenes = append(g.ControlGenes, NewMIMOGene(ctrl, 900, 0.5, vBool("module2.enabled")))
		}
	}
	net, err := g.Genesis(5)
	vAssert(err == nil, "C11: a well-formed genome is expressed without error")
	if err != nil {
		return
	}
	base := net.BaseNodes()
	vAssert(len(base) == len(g.Nodes), "C11: one network node per genome node")
	if len(base) != len(g.Nodes) {
		return
	}
	okNodes := true
	for i, n := range g.Nodes {
		p := base[i]
		okNodes = okNodes && p != n && p.Id == n.Id && p.NeuronType == n.NeuronType && p.ActivationType == n.ActivationType && n.PhenotypeAnalogue == p
	}
	vAssert(okNodes, "C11: network nodes carry the genome nodes' id, role and activation type, in genome order")
	// outputs in genome order
	var outIds []int
	for _, n := range g.Nodes {
		if n.NeuronType == network.OutputNeuron {
			outIds = append(outIds, n.Id)
		}
	}
	okOut := len(net.Outputs) == len(outIds)
	for i := range outIds {
		okOut = okOut && i < len(net.Outputs) && net.Outputs[i].Id == outIds[i]
	}
	vAssert(okOut, "C11: outputs appear in genome order")
	// inputs in genome order: load a vector and see where the values land
	var sensors []*network.NNode
	for _, n := range base {
		if n.NeuronType == network.InputNeuron || n.NeuronType == network.BiasNeuron {
			sensors = append(sensors, n)
		}
	}
	vals := make([]float64, len(sensors))
	for i := range vals {
		vals[i] = float64(10 + i)
	}
	_ = net.LoadSensors(vals)
	okIn := true
	for i, s := range sensors {
		okIn = okIn && s.Activation == vals[i]
	}
	vAssert(okIn, "C11: inputs are loaded in genome order")
	// links: exactly one per enabled gene (the enabled flags are decided on each path by Genesis' own branch)
	enabled := 0
	for _, gn := range g.Genes {
		in, out := gn.Link.InNode.PhenotypeAnalogue, gn.Link.OutNode.PhenotypeAnalogue
		cnt := 0
		var hit *network.Link
		for _, l := range out.Incoming {
			if l.InNode == in && vConcreteBool(l.IsRecurrent == gn.Link.IsRecurrent) {
				cnt++
				hit = l
			}
		}
		if vConcreteBool(gn.IsEnabled) {
			enabled++
			vAssert(cnt == 1, "C11: exactly one link per enabled gene (same endpoints and recurrence flag)")
			if hit != nil {
				vAssert(hit.ConnectionWeight == gn.Link.ConnectionWeight, "C11: the link carries the gene's weight")
				inOut := false
				for _, l := range in.Outgoing {
					if l == hit {
						inOut = true
					}
				}
				vAssert(inOut && hit.OutNode == out, "C11: the link is registered with both of its end nodes")
			}
		} else {
			vAssert(cnt == 0, "C11: a disabled gene contributes nothing")
		}
	}
	totalIn, totalOut := 0, 0
	for _, p := range base {
		totalIn += len(p.Incoming)
		totalOut += len(p.Outgoing)
	}
	vAssert(totalIn == enabled && totalOut == enabled, "C11: the network has no link beyond the enabled genes")
	// modules
	mods, modLinks := 0, 0
	for _, cg := range g.ControlGenes {
		if vConcreteBool(cg.IsEnabled) {
			mods++
			modLinks += len(cg.ControlNode.Incoming) + len(cg.ControlNode.Outgoing)
		}
	}
	ctrl := net.ControlNodes()
	vAssert(len(ctrl) == mods, "C11: enabled modules appear as control nodes")
	k := 0
	for _, cg := range g.ControlGenes {
		if !vConcreteBool(cg.IsEnabled) || k >= len(ctrl) {
			continue
		}
		cn := ctrl[k]
		k++
		ok := cn.Id == cg.ControlNode.Id && cn.ActivationType == cg.ControlNode.ActivationType && len(cn.Incoming) == len(cg.ControlNode.Incoming) && len(cn.Outgoing) == len(cg.ControlNode.Outgoing)
		if ok {
			for i, l := range cg.ControlNode.Incoming {
				ok = ok && cn.Incoming[i].InNode == l.InNode.PhenotypeAnalogue && cn.Incoming[i].OutNode == cn
				vAssert(cn.Incoming[i].ConnectionWeight == l.ConnectionWeight, "C11: module input links carry their weights")
			}
			for i, l := range cg.ControlNode.Outgoing {
				ok = ok && cn.Outgoing[i].OutNode == l.OutNode.PhenotypeAnalogue && cn.Outgoing[i].InNode == cn
			}
		}
		vAssert(ok, "C11: a control node is wired to its listed inputs and outputs")
	}
	vAssert(net.NodeCount() == len(g.Nodes)+mods, "C11: NodeCount")
	vAssert(net.LinkCount() == enabled+modLinks, "C11: LinkCount")
	vAssert(net.Complexity() == len(g.Nodes)+mods+enabled+modLinks, "C11: Complexity = nodes + links")

	// ---- graph view, for ALL ordered pairs of ids (solver-quantified, incl. absent ones) ----
	u, v := vInt("u"), vInt("v")
	vAssume(vAnd(vAnd(u >= 0, u <= 22), vAnd(v >= 0, v <= 22)))
	vAssume(vAnd(vOr(u <= 6, u >= 19), vOr(v <= 6, v >= 19))) // ids 7..18 are all absent and behave like 6 and 19
	uid, vid := int64(vConcrete(u)), int64(vConcrete(v))
	present := func(id int64) bool {
		for _, p := range net.AllNodes() {
			if int64(p.Id) == id {
				return true
			}
		}
		return false
	}
	isBase := func(id int64) bool {
		for _, p := range base {
			if int64(p.Id) == id {
				return true
			}
		}
		return false
	}
	nu := net.Node(uid)
	if present(uid) {
		vAssert(nu != nil && nu.ID() == uid, "C11 graph: Node returns the node with that id")
	} else {
		vAssert(nu == nil, "C11 graph: an absent node is reported as nil")
	}
	// the link relation established above (base links + module links)
	edge := func(a, b int64) (bool, float64) {
		for _, gn := range g.Genes {
			if vConcreteBool(gn.IsEnabled) && int64(gn.Link.InNode.Id) == a && int64(gn.Link.OutNode.Id) == b {
				return true, gn.Link.ConnectionWeight
			}
		}
		for _, cg := range g.ControlGenes {
			if !vConcreteBool(cg.IsEnabled) {
				continue
			}
			for _, l := range cg.ControlNode.Incoming {
				if int64(l.InNode.Id) == a && int64(cg.ControlNode.Id) == b {
					return true, l.ConnectionWeight
				}
			}
			for _, l := range cg.ControlNode.Outgoing {
				if int64(cg.ControlNode.Id) == a && int64(l.OutNode.Id) == b {
					return true, l.ConnectionWeight
				}
			}
		}
		return false, 0
	}
	has, _ := edge(uid, vid)
	hasRev, _ := edge(vid, uid)
	vAssert(net.HasEdgeFromTo(uid, vid) == has, "C11 graph: HasEdgeFromTo reports exactly the links")
	vAssert(net.HasEdgeBetween(uid, vid) == (has || hasRev), "C11 graph: HasEdgeBetween reports links in either direction")
	e := net.Edge(uid, vid)
	we := net.WeightedEdge(uid, vid)
	w, ok := net.Weight(uid, vid)
	if has {
		vAssert(e != nil && e.From().ID() == uid && e.To().ID() == vid, "C11 graph: Edge returns the link with its end nodes")
		vAssert(we != nil && ok, "C11 graph: WeightedEdge and Weight report the link")
		// the weight is that of an enabled gene joining the pair (several may differ in the recurrence flag)
		match := false
		for _, gn := range g.Genes {
			if vConcreteBool(gn.IsEnabled) && int64(gn.Link.InNode.Id) == uid && int64(gn.Link.OutNode.Id) == vid {
				match = vOr(match, w == gn.Link.ConnectionWeight)
			}
		}
		if isBase(uid) && isBase(vid) {
			vAssert(match, "C11 graph: Weight is the weight of a gene joining the pair")
		}
	} else {
		vAssert(e == nil, "C11 graph: an absent edge is reported as nil (Edge)")
		vAssert(we == nil, "C11 graph: an absent edge is reported as nil (WeightedEdge)")
		vAssert(!ok, "C11 graph: an absent edge has no weight")
	}
	// successors / predecessors
	from, to := nodesOf(net.From(uid)), nodesOf(net.To(uid))
	for _, p := range net.AllNodes() {
		pid := int64(p.Id)
		isSucc, _ := edge(uid, pid)
		isPred, _ := edge(pid, uid)
		inFrom, inTo := false, false
		for _, x := range from {
			inFrom = inFrom || x == pid
		}
		for _, x := range to {
			inTo = inTo || x == pid
		}
		if isBase(uid) {
			vAssert(inFrom == isSucc, "C11 graph: From lists exactly the successors")
			vAssert(inTo == isPred, "C11 graph: To lists exactly the predecessors")
		}
	}
	if !present(uid) {
		vAssert(len(from) == 0 && len(to) == 0, "C11 graph: an absent node has no neighbours")
	}
	all := nodesOf(net.Nodes())
	vAssert(len(all) == len(g.Nodes)+mods, "C11 graph: Nodes lists every node once")
	vReach("end")
}

func vc11Phenotype() {
	g := tGenome("g", 3, tmplCfg{outputs: 1, hidden: 0, genes: 2, traits: 1, params: 1, fixedBase: true, symEnable: true})
	o, _ := NewOrganism(1.0, g, 1)
	p1, e1 := o.Phenotype()
	p2, e2 := o.Phenotype()
	vAssert(e1 == nil && e2 == nil && p1 == p2 && p1 != nil, "C11: the phenotype is built once and cached")
	before := p1.LinkCount()
	flipped := g.Genes[0]
	was := vConcreteBool(flipped.IsEnabled)
	flipped.IsEnabled = !was
	vAssert(o.UpdatePhenotype() == nil, "C11: UpdatePhenotype succeeds")
	p3, _ := o.Phenotype()
	vAssert(p3 != p1, "C11: UpdatePhenotype builds a new network")
	if was {
		vAssert(p3.LinkCount() == before-1, "C11: the updated phenotype reflects the disabled gene")
	} else {
		vAssert(p3.LinkCount() == before+1, "C11: the updated phenotype reflects the enabled gene")
	}
	vReach("end")
}

var _ = neatmath.NullActivation

func VC11_Genesis_Quick() {
	vc11(tmplCfg{outputs: 2, hidden: 1, genes: 3, traits: 1, params: 1, symRecur: true, symEnable: true,
		links: [][2]int{{0, 2}, {1, 4}, {4, 4}}}, false)
}
func VC11_SamePair_Quick() {
	// two genes joining the same ordered pair, differing in the recurrence flag (genetically distinct)
	vc11(tmplCfg{outputs: 1, hidden: 1, genes: 3, traits: 1, params: 1, symRecur: true, symEnable: true,
		links: [][2]int{{0, 3}, {3, 2}, {3, 2}}}, false)
}
func VC11_LateInput_Quick() {
	// node list not grouped by role: an input sensor with the last id
	vc11(tmplCfg{outputs: 1, hidden: 1, genes: 3, traits: 1, params: 1, symRecur: false, symEnable: true, lateInput: true,
		links: [][2]int{{0, 2}, {4, 3}, {3, 2}}}, false)
}
func VC11_Module_Quick() {
	vc11(tmplCfg{outputs: 1, hidden: 0, genes: 2, traits: 1, params: 1, symRecur: false, symEnable: true, fixedBase: true}, true)
}
func VC11_Phenotype_Quick() { vc11Phenotype() }
func VC11_Genesis_Thorough() {
	vc11(tmplCfg{outputs: 2, hidden: 1, genes: 4, traits: 1, params: 1, symRecur: true, symEnable: true,
		links: [][2]int{{0, 2}, {1, 3}, {4, 4}}}, false)
}
