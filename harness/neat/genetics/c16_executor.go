package genetics

import (
	"bytes"
	"context"
	"encoding/gob"
	"io"

	"github.com/yaricom/goNEAT/v4/neat"
	neatmath "github.com/yaricom/goNEAT/v4/neat/math"
)

// C16, the executor's own goroutine structure: ParallelPopulationEpochExecutor.reproduce runs for real - its go
// statements, WaitGroup, result channel and the loop around them - with the REAL Species.reproduce and the real
// mutation operators in every goroutine. Each go statement starts a logical thread; the schedule query covers all of
// them plus the spawning thread. The gob wire format is replaced by pass-through stubs in the engine (natively the
// real encoder runs); speciation of the collected babies happens after the join and is stubbed out.

var c16Streams [][]*Organism
var c16ReadStream, c16ReadPos int

func c16GobNewEncoder(w io.Writer) *gob.Encoder {
	c16Streams = append(c16Streams, nil)
	return new(gob.Encoder)
}
func c16GobEncode(e *gob.Encoder, v interface{}) error {
	c16Streams[len(c16Streams)-1] = append(c16Streams[len(c16Streams)-1], v.(*Organism))
	return nil
}
func c16BufferBytes(b *bytes.Buffer) []byte { return []byte{byte(len(c16Streams) - 1)} }
func c16NewBuffer(b []byte) *bytes.Buffer {
	c16ReadStream, c16ReadPos = int(b[0]), 0
	return new(bytes.Buffer)
}
func c16GobNewDecoder(r io.Reader) *gob.Decoder { return new(gob.Decoder) }
func c16GobDecode(d *gob.Decoder, v interface{}) error {
	src := c16Streams[c16ReadStream][c16ReadPos]
	c16ReadPos++
	dst := v.(*Organism)
	dst.Fitness, dst.Generation, dst.Genotype = src.Fitness, src.Generation, src.Genotype
	return nil
}

var c16Progeny []*Organism

func c16Speciate(p *Population, ctx context.Context, babies []*Organism) error {
	c16Progeny = babies
	return nil
}

// eight trait parameters as in every genome of the library: natively the babies travel through the real wire format
var c16Exec = tmplCfg{outputs: 1, hidden: 1, genes: 2, traits: 1, params: 8, fixedBase: true, biasFree: true}

func vc16Executor(ns, quota int, structural int) {
	c16Streams, c16Progeny = nil, nil
	pop := newPopulation()
	pop.nextInnovNum, pop.nextNodeId = 100, 20
	// the non-structural mutation rates are zero: those operators touch only the baby's private genome
	opts := &neat.Options{NodeActivators: []neatmath.NodeActivationType{neatmath.SigmoidSteepenedActivation}, NodeActivatorsProb: []float64{1.0}, NewLinkTries: tNewLinkTries}
	opts.PopSize = ns * quota
	opts.MutateOnlyProb = 1
	pool := 1
	switch structural {
	case 0:
		// all or nothing: natively the draws inside the goroutines are not scripted, the rate alone must decide
		opts.MutateAddNodeProb = float64(vChoice("MutateAddNodeProb 0 / 1", 2))
	case 1:
		opts.MutateAddLinkProb = 1
	case 2:
		// mating route, always outside the species: every goroutine reads the champion of ANOTHER species while that
		// species' own goroutine reproduces from it
		opts.MutateOnlyProb, opts.InterspeciesMateRate, opts.MateOnlyProb = 0, 1, 1
		opts.MateMultipointProb = float64(vChoice("MateMultipointProb 0 / 1", 2))
		opts.MateMultipointAvgProb, opts.MateSinglepointProb = 0, 1
		pool = 2
	}
	var sorted []*Species
	for i := 0; i < ns; i++ {
		sp := NewSpecies(i + 1)
		sp.Age = 2
		sp.ExpectedOffspring = quota
		for k := 0; k < pool; k++ {
			g := tGenome("g", 10*i+k+1, c16Exec)
			o := &Organism{Genotype: g, Species: sp, Fitness: 1, originalFitness: 1}
			sp.Organisms = append(sp.Organisms, o)
			pop.Organisms = append(pop.Organisms, o)
		}
		pop.Species = append(pop.Species, sp)
		sorted = append(sorted, sp)
	}
	ex := &ParallelPopulationEpochExecutor{sequential: &SequentialPopulationEpochExecutor{sortedSpecies: sorted, bestSpeciesId: 1}}
	vParallelSection(true)
	err := ex.reproduce(&hCtx{opts: opts}, 1, pop)
	vParallelSection(false)
	if err != nil {
		println("VC16 executor: reproduce failed:", err.Error())
	}
	vAssert(err == nil, "C16: the parallel reproduction cycle succeeds")
	vAssert(len(c16Progeny) == ns*quota, "C16: the progeny collected from the goroutines is exactly the population size")
	for i, b := range c16Progeny {
		vAssert(b != nil && b.Genotype != nil, "C16: every collected baby carries a genome")
		for _, c := range c16Progeny[i+1:] {
			vAssert(b != c, "C16: the collected babies are distinct organisms")
		}
	}
	vReach("end")
}

func VC16_Executor_Quick()           { vc16Executor(2, 1, 0) }
func VC16_Executor_Thorough()        { vc16Executor(3, 1, 0) }
func VC16_ExecutorAddLink_Thorough() { vc16Executor(2, 1, 1) }
func VC16_ExecutorQuota2_Thorough()  { vc16Executor(2, 2, 0) }
func VC16_ExecutorMating_Thorough()  { vc16Executor(2, 1, 2) }
