package genetics

import (
	"github.com/yaricom/goNEAT/v4/neat"
	"github.com/yaricom/goNEAT/v4/neat/network"
)

// c07Genome builds a genome with n connection genes whose innovation numbers are symbolic and strictly
// ascending, with symbolic mutation numbers. Only Genes matter to the compatibility functions.
func c07Genome(tag string, n int) *Genome {
	in := network.NewNNode(1, network.InputNeuron)
	out := network.NewNNode(2, network.OutputNeuron)
	genes := make([]*Gene, 0, n)
	prev := 0
	for i := 0; i < n; i++ {
		innov := vInt(tag + ".innov")
		vAssume(innov > prev)
		vAssume(innov <= 1000)
		prev = innov
		mut := vFloat(tag + ".mut")
		vAssume(mut >= -1000 && mut <= 1000)
		genes = append(genes, NewGene(mut, in, out, false, int64(innov), mut))
	}
	return NewGenome(1, nil, []*network.NNode{in, out}, genes)
}

func c07Opts() *neat.Options {
	o := &neat.Options{}
	o.DisjointCoeff = vFloat("disjoint_coeff")
	o.ExcessCoeff = vFloat("excess_coeff")
	o.MutdiffCoeff = vFloat("mutdiff_coeff")
	vAssume(o.DisjointCoeff >= 0 && o.DisjointCoeff <= 100)
	vAssume(o.ExcessCoeff >= 0 && o.ExcessCoeff <= 100)
	vAssume(o.MutdiffCoeff >= 0 && o.MutdiffCoeff <= 100)
	// the distance is a function of the two genomes and the three coefficients only: the speciation threshold (any value)
	// must not influence it
	o.CompatThreshold = vFloat("compat_threshold")
	vAssume(o.CompatThreshold >= 0 && o.CompatThreshold <= 100)
	return o
}

func absF(x float64) float64 {
	if x < 0 {
		return -x
	}
	return x
}

// specEDW is the definition from the property statement: E/D count genes by innovation number that have
// no partner in the other genome, beyond (excess) or within (disjoint) the other genome's range; W is the
// mean mutation-number difference over matching genes, 0 when none match.
func specEDW(a, b *Genome) (e, d, w float64) {
	maxA, maxB := int64(-1), int64(-1)
	for _, g := range a.Genes {
		if g.InnovationNum > maxA {
			maxA = g.InnovationNum
		}
	}
	for _, g := range b.Genes {
		if g.InnovationNum > maxB {
			maxB = g.InnovationNum
		}
	}
	matching, total := 0, 0.0
	for _, g := range a.Genes {
		found := false
		for _, h := range b.Genes {
			if g.InnovationNum == h.InnovationNum {
				found = true
				matching++
				total += absF(g.MutationNum - h.MutationNum)
			}
		}
		if !found {
			if g.InnovationNum > maxB {
				e++
			} else {
				d++
			}
		}
	}
	for _, h := range b.Genes {
		found := false
		for _, g := range a.Genes {
			if g.InnovationNum == h.InnovationNum {
				found = true
			}
		}
		if !found {
			if h.InnovationNum > maxA {
				e++
			} else {
				d++
			}
		}
	}
	if matching > 0 {
		w = total / float64(matching)
	}
	return
}

func vc07(maxN int) { vc07Sizes(0, maxN, 0, maxN) }

func vc07Sizes(min1, max1, min2, max2 int) {
	n1, n2 := min1+vChoice("n1", max1-min1+1), min2+vChoice("n2", max2-min2+1)
	a, b := c07Genome("a", n1), c07Genome("b", n2)
	o := c07Opts()
	lin, fast := a.compatLinear(b, o), a.compatFast(b, o)
	e, d, w := specEDW(a, b)
	want := o.ExcessCoeff*e + o.DisjointCoeff*d + o.MutdiffCoeff*w
	vObserveF("linear", lin)
	vObserveF("fast", fast)
	vObserveF("want", want)
	vAssertEqF(lin, want, "linear method = formula")
	vAssertEqF(fast, want, "fast method = formula")
	vAssertEqF(b.compatFast(a, o), fast, "fast method symmetric")
	vAssertEqF(b.compatLinear(a, o), lin, "linear method symmetric")
	vAssert(fast >= 0, "fast distance non-negative")
	vAssert(lin >= 0, "linear distance non-negative")
	vAssert(lin == lin, "linear distance is not NaN")
	vAssert(fast == fast, "fast distance is not NaN")
	vReach("end")
}

func VC07_Compat_Quick()    { vc07(4) }

// a short genome against a long one: long excess / disjoint tails, one genome a prefix or a scattered subset of the other
func VC07_LongTail_Quick()    { vc07Sizes(0, 2, 6, 7) }
func VC07_LongTail_Thorough() { vc07Sizes(0, 3, 8, 10) }
func VC07_Compat_Thorough() { vc07(5) }

// self-distance, distance to a duplicate, and the dispatch between the two selectable methods
func vc07Self(n int) {
	a := c07Genome("a", n)
	b := c07Genome("b", vChoice("nb", n+1))
	o := c07Opts()
	vAssertEqF(a.compatLinear(a, o), 0, "linear distance of a genome to itself is zero")
	vAssertEqF(a.compatFast(a, o), 0, "fast distance of a genome to itself is zero")
	d, err := a.duplicate(2)
	vAssert(err == nil, "duplicate succeeds")
	if err == nil {
		vAssertEqF(a.compatLinear(d, o), 0, "linear distance to the duplicate is zero")
		vAssertEqF(a.compatFast(d, o), 0, "fast distance to the duplicate is zero")
	}
	o.GenCompatMethod = neat.GenomeCompatibilityMethodLinear
	vAssertEqF(a.compatibility(b, o), a.compatLinear(b, o), "option 'linear' selects the linear method")
	o.GenCompatMethod = neat.GenomeCompatibilityMethodFast
	vAssertEqF(a.compatibility(b, o), a.compatFast(b, o), "option 'fast' selects the fast method")
	vReach("end")
}

// c07Partner: a genome sharing the first k innovation numbers of a (own mutation numbers), followed by extra own genes
// whose innovation numbers are symbolic and ascending (anywhere relative to a's remaining genes).
func c07Partner(a *Genome, k, extra int) *Genome {
	in, out := a.Nodes[0], a.Nodes[1]
	genes := make([]*Gene, 0, k+extra)
	prev := 0
	for i := 0; i < k; i++ {
		mut := a.Genes[i].MutationNum + float64(i%3)
		if i < 3 {
			mut = vFloat("b.mut")
			vAssume(mut >= -1000 && mut <= 1000)
		}
		genes = append(genes, NewGene(mut, in, out, false, a.Genes[i].InnovationNum, mut))
	}
	for i := 0; i < extra; i++ {
		innov := vInt("b.innov")
		vAssume(innov > prev)
		if k > 0 {
			vAssume(int64(innov) > a.Genes[k-1].InnovationNum)
		}
		vAssume(innov <= 1000)
		prev = innov
		mut := vFloat("b.mut")
		vAssume(mut >= -1000 && mut <= 1000)
		genes = append(genes, NewGene(mut, in, out, false, int64(innov), mut))
	}
	return NewGenome(2, nil, []*network.NNode{in, out}, genes)
}

// large genomes: a genome of n genes against its own prefix (empty, half, all but one, all) plus 0..1 genes of the
// partner's own - the sizes real populations reach, where anything that depends on the gene count would show
func vc07Large(n int) {
	// innovation numbers 2, 4, .., 2n (concrete: symbolic ones fork at every comparison of the walk); the partner's own
	// gene may fall between any two of them, on one of them, or beyond
	a := c07Genome("a", n)
	for i, g := range a.Genes {
		g.InnovationNum = int64(2 * (i + 1))
		g.MutationNum = float64(i%5) / 4 // concrete as well; the partner's first three shared genes differ symbolically
	}
	var k int
	switch vChoice("shared prefix", 4) {
	case 0:
		k = 0
	case 1:
		k = n / 2
	case 2:
		k = n - 1
	default:
		k = n
	}
	b := c07Partner(a, k, vChoice("own genes", 2))
	o := c07Opts()
	// the mutation-difference coefficient is fixed here: coefficient x mean of two dozen symbolic differences is a
	// non-linear term the solvers do not finish; the other two coefficients and the threshold stay symbolic
	o.MutdiffCoeff = 3
	lin, fast := a.compatLinear(b, o), a.compatFast(b, o)
	e, d, w := specEDW(a, b)
	want := o.ExcessCoeff*e + o.DisjointCoeff*d + o.MutdiffCoeff*w
	vObserveF("linear", lin)
	vObserveF("fast", fast)
	vAssertEqF(lin, want, "linear method = formula")
	vAssertEqF(fast, want, "fast method = formula")
	vAssertEqF(b.compatFast(a, o), fast, "fast method symmetric")
	vAssertEqF(b.compatLinear(a, o), lin, "linear method symmetric")
	vAssertEqF(a.compatLinear(a, o), 0, "linear distance of a genome to itself is zero")
	vAssertEqF(a.compatFast(a, o), 0, "fast distance of a genome to itself is zero")
	vReach("end")
}

func VC07_Large_Quick()    { vc07Large(24) }
func VC07_Large_Thorough() { vc07Large(40) }

func VC07_Self_Quick()    { vc07Self(3) }
func VC07_Self_Thorough() { vc07Self(5) }

// F-model (IEEE-754, bit exact): neither method returns NaN or a negative value for finite inputs.
func vc07NaN(maxN int) {
	n1, n2 := vChoice("n1", maxN+1), vChoice("n2", maxN+1)
	a, b := c07Genome("a", n1), c07Genome("b", n2)
	o := c07Opts()
	lin, fast := a.compatLinear(b, o), a.compatFast(b, o)
	vAssert(lin == lin, "linear distance is not NaN (IEEE)")
	vAssert(fast == fast, "fast distance is not NaN (IEEE)")
	vAssert(lin >= 0, "linear distance non-negative (IEEE)")
	vAssert(fast >= 0, "fast distance non-negative (IEEE)")
	vReach("end")
}

func VC07_NaN_Quick() { vc07NaN(2) }
