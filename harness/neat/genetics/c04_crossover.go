package genetics

import (
	"github.com/yaricom/goNEAT/v4/neat/network"
)

// Crossover harnesses shared by C04 (inheritance rules) and C01 (children are well-formed).
// Two parents over the same node id space; innovation numbers symbolic and CONSISTENT (equal number => same
// link), so the solver ranges over every alignment pattern (matching / disjoint / excess in any interleaving).

const (
	mateMultipointM = iota
	mateMultipointAvgM
	mateSinglePointM
)

type mateScene struct {
	p1, p2 *Genome
	s1, s2 *genomeSnap
	f1, f2 float64
	child  *Genome
	err    error
	method int
}

// consistent: common ancestry - equal innovation number => same endpoints and recurrence flag
func assumeConsistent(p1, p2 *Genome) {
	for _, a := range p1.Genes {
		for _, b := range p2.Genes {
			if a.Link.InNode.Id != b.Link.InNode.Id || a.Link.OutNode.Id != b.Link.OutNode.Id {
				vAssume(a.InnovationNum != b.InnovationNum)
			} else {
				vAssume(vImplies(a.InnovationNum == b.InnovationNum, a.Link.IsRecurrent == b.Link.IsRecurrent))
			}
		}
	}
}

// mateSelf: the next scene mates a genome with itself
var mateSelf bool

func newMateScene(c1, c2 tmplCfg, method int) *mateScene {
	m := &mateScene{method: method}
	m.p1 = tGenome("p1", 1, c1)
	if mateSelf {
		m.p2 = m.p1 // an organism drawn as both mom and dad (Species.reproduce does that)
	} else {
		m.p2 = tGenome("p2", 2, c2)
	}
	assumeConsistent(m.p1, m.p2)
	m.f1, m.f2 = vFloat("fitness1"), vFloat("fitness2")
	vAssume(vAnd(vAnd(m.f1 >= 0, m.f1 <= 1000), vAnd(m.f2 >= 0, m.f2 <= 1000)))
	m.s1, m.s2 = snap(m.p1), snap(m.p2)
	switch method {
	case mateMultipointM:
		m.child, m.err = m.p1.mateMultipoint(m.p2, 9, m.f1, m.f2)
	case mateMultipointAvgM:
		m.child, m.err = m.p1.mateMultipointAvg(m.p2, 9, m.f1, m.f2)
	case mateSinglePointM:
		m.child, m.err = m.p1.mateSinglePoint(m.p2, 9)
	}
	return m
}

func findByInnov(gs []geneSnap, innov int64) (found bool, g geneSnap) {
	// symbolic search: returns an ite-merged snapshot of the parent's gene with that number, if any
	for _, x := range gs {
		hit := x.innov == innov
		if !found {
			// the first candidate initialises the structure; later hits overwrite by ite
			g = x
		}
		g.weight = vIteF(hit, x.weight, g.weight)
		g.mut = vIteF(hit, x.mut, g.mut)
		g.enabled = vOr(vAnd(hit, x.enabled), vAnd(!hit, g.enabled))
		g.recur = vOr(vAnd(hit, x.recur), vAnd(!hit, g.recur))
		found = vOr(found, hit)
	}
	return
}

func (m *mateScene) checkC04() {
	vAssert(m.err == nil, "C04: crossover of two consistent parents returns no error")
	if m.err != nil || m.child == nil {
		return
	}
	ch := m.child
	multi := m.method != mateSinglePointM
	avg := m.method != mateMultipointM
	// which parent may contribute unmatched genes (multipoint methods)
	p1better := vOr(m.f1 > m.f2, vAnd(m.f1 == m.f2, len(m.p1.Genes) < len(m.p2.Genes)))
	p2better := vOr(m.f2 > m.f1, vAnd(m.f1 == m.f2, len(m.p2.Genes) < len(m.p1.Genes)))
	once := true
	for i, cg := range ch.Genes {
		cs := snapGene(cg)
		for j := i + 1; j < len(ch.Genes); j++ {
			once = vAnd(once, cg.InnovationNum != ch.Genes[j].InnovationNum)
		}
		in1, in2 := false, false
		structOK := false
		weightOK, enabledOK := false, true
		for _, a := range m.s1.genes {
			hit := a.innov == cs.innov
			in1 = vOr(in1, hit)
			if a.in == cs.in && a.out == cs.out {
				structOK = vOr(structOK, vAnd(hit, a.recur == cs.recur))
			}
		}
		for _, b := range m.s2.genes {
			hit := b.innov == cs.innov
			in2 = vOr(in2, hit)
			if b.in == cs.in && b.out == cs.out {
				structOK = vOr(structOK, vAnd(hit, b.recur == cs.recur))
			}
		}
		vAssert(structOK, "C04: every child gene has the innovation number, endpoints and recurrence flag of a parent gene")
		_, g1 := findByInnov(m.s1.genes, cs.innov)
		_, g2 := findByInnov(m.s2.genes, cs.innov)
		both := vAnd(in1, in2)
		only1, only2 := vAnd(in1, !in2), vAnd(in2, !in1)
		mean := (g1.weight + g2.weight) / 2
		weightOK = vOr(vAnd(only1, cs.weight == g1.weight), vAnd(only2, cs.weight == g2.weight))
		if avg {
			weightOK = vOr(weightOK, vAnd(both, vOr(cs.weight == mean, vOr(cs.weight == g1.weight, cs.weight == g2.weight))))
		} else {
			weightOK = vOr(weightOK, vAnd(both, vOr(cs.weight == g1.weight, cs.weight == g2.weight)))
		}
		vAssert(weightOK, "C04: a child gene's weight is that parent gene's weight or, where the method averages, the mean of both")
		// enabled in every carrier => enabled; disabled in the only carrier => disabled
		enabledOK = vAnd(enabledOK, vImplies(vAnd(both, vAnd(g1.enabled, g2.enabled)), cs.enabled))
		enabledOK = vAnd(enabledOK, vImplies(vAnd(only1, g1.enabled), cs.enabled))
		enabledOK = vAnd(enabledOK, vImplies(vAnd(only2, g2.enabled), cs.enabled))
		enabledOK = vAnd(enabledOK, vImplies(vAnd(only1, !g1.enabled), !cs.enabled))
		enabledOK = vAnd(enabledOK, vImplies(vAnd(only2, !g2.enabled), !cs.enabled))
		vAssert(enabledOK, "C04: enabled if enabled in every carrier, disabled if disabled in the only carrier")
		if multi {
			vAssert(vAnd(vImplies(only1, !p2better), vImplies(only2, !p1better)), "C04 multipoint: genes present in one parent only come from the fitter parent")
		}
	}
	vAssert(once, "C04: every inherited gene occurs once")
	if multi {
		// every gene present in both parents is inherited; unmatched genes of the fitter parent are inherited
		all := true
		for _, a := range m.s1.genes {
			inBoth := false
			for _, b := range m.s2.genes {
				inBoth = vOr(inBoth, a.innov == b.innov)
			}
			inChild := false
			for _, cg := range ch.Genes {
				inChild = vOr(inChild, cg.InnovationNum == a.innov)
			}
			all = vAnd(all, vImplies(inBoth, inChild))
		}
		vAssert(all, "C04 multipoint: every gene present in both parents is inherited")
	}
	// nodes: all inputs, bias, outputs plus exactly the nodes the genes touch
	okNodes := true
	for _, n := range ch.Nodes {
		if n.NeuronType == network.HiddenNeuron {
			touched := false
			for _, cg := range ch.Genes {
				if cg.Link.InNode == n || cg.Link.OutNode == n {
					touched = true
				}
			}
			okNodes = okNodes && touched
		}
	}
	vAssert(okNodes, "C04: the child has no node beyond inputs, bias, outputs and the nodes its genes touch")
	ioRetainedSnap(ch, m.s1, "C04 child vs parent 1")
	ioRetainedSnap(ch, m.s2, "C04 child vs parent 2")
	// traits: same count, averaged parameters
	vAssert(len(ch.Traits) == len(m.p1.Traits), "C04: the child has the parents' number of traits")
	tok := true
	for i, t := range ch.Traits {
		if i < len(m.s1.traits) && i < len(m.s2.traits) {
			for k := range t.Params {
				tok = vAnd(tok, t.Params[k] == (m.s1.traits[i][k]+m.s2.traits[i][k])/2)
			}
		}
	}
	vAssert(tok, "C04: trait parameters are the parents' averages")
	vAssert(sameSnap(snap(m.p1), m.s1), "C04: parent 1 is left unmodified")
	vAssert(sameSnap(snap(m.p2), m.s2), "C04: parent 2 is left unmodified")
	vAssert(vDisjoint(ch, m.p1) && vDisjoint(ch, m.p2), "C04: the child shares no mutable state with its parents")
}

func (m *mateScene) checkC01() {
	vAssert(m.err == nil, "C01: crossover returns no error")
	if m.err != nil || m.child == nil {
		return
	}
	wfCheck(m.child, "C01 child")
	ioRetainedSnap(m.child, m.s1, "C01 child vs parent 1")
	ioRetainedSnap(m.child, m.s2, "C01 child vs parent 2")
	if m.method == mateSinglePointM {
		// known finding 8b: parents without any common gene prefix (see known_findings.txt)
		p1g, p2g := m.s1.genes, m.s2.genes
		if len(p1g) > len(p2g) {
			p1g, p2g = p2g, p1g // p1g = shorter (on a tie the code takes og as the shorter one)
		} else if len(p1g) == len(p2g) {
			p1g, p2g = m.s2.genes, m.s1.genes
		}
		allBefore := true
		for _, b := range p2g {
			allBefore = vAnd(allBefore, b.innov < p1g[0].innov)
		}
		_, err := m.child.Genesis(1)
		ok := err == nil
		vAssert(vOr(ok, allBefore), "C01 child: can be expressed as a network without error")
		vAssert(vOr(ok, !allBefore), "KNOWN:8b single-point crossover of parents where every gene of the longer parent precedes the shorter parent's first gene yields a child without genes")
		return
	}
	genesisOK(m.child, "C01 child")
}

func vcMate(prop, method int, c1, c2 tmplCfg) {
	m := newMateScene(c1, c2, method)
	if prop == propC04 {
		m.checkC04()
	} else {
		m.checkC01()
	}
	vReach("end")
}

const propC04 = 4

// node indices: 0 input, 1 bias, 2 output, 3 hidden
var (
	lInOut   = [2]int{0, 2}
	lBiasOut = [2]int{1, 2}
	lInHid   = [2]int{0, 3}
	lHidOut  = [2]int{3, 2}
	lHidHid  = [2]int{3, 3}
)

func pcfg(recur bool, links ...[2]int) tmplCfg {
	return tmplCfg{outputs: 1, hidden: 1, genes: len(links), traits: 1, params: 1, symRecur: recur, symEnable: true, links: links}
}

// parent shapes: a common start (in->out, bias->out) plus structural additions; the innovation numbers are
// symbolic, so the same link may or may not carry the same number in both parents
func mateShapes(k int) (tmplCfg, tmplCfg) {
	switch k {
	case 0:
		return pcfg(false, lInOut, lBiasOut), pcfg(false, lInOut, lBiasOut)
	case 1:
		return pcfg(false, lInOut, lInHid, lHidOut), pcfg(false, lInOut, lBiasOut)
	case 2:
		return pcfg(false, lInOut, lBiasOut), pcfg(false, lBiasOut, lInHid, lHidOut)
	case 3:
		return pcfg(true, lInOut, lHidHid), pcfg(true, lInOut, lHidOut)
	case 4:
		return pcfg(false, lInOut), pcfg(false, lBiasOut, lInHid, lHidOut)
	case 5:
		// node lists not grouped by role: an unconnected output with a higher id than the hidden node
		a, b := pcfg(false, lInOut, lInHid, lHidOut), pcfg(false, lInOut, lBiasOut)
		a.lateOutput, b.lateOutput = true, true
		return a, b
	case 6:
		// two genes on the same ordered node pair that differ in the recurrence flag
		return pcfg(true, lHidOut, lHidOut), pcfg(true, lHidOut, lHidOut)
	}
	return pcfg(false, lInOut, lBiasOut, lInHid, lHidOut), pcfg(false, lInOut, lBiasOut, lHidOut)
}

func mateQuick(prop, method int) {
	c1, c2 := mateShapes(vChoice("shape", 7))
	vcMate(prop, method, c1, c2)
}

func VC04_Multipoint()    { mateQuick(propC04, mateMultipointM) }
func VC04_MultipointAvg() { mateQuick(propC04, mateMultipointAvgM) }
func VC04_SinglePoint()   { mateQuick(propC04, mateSinglePointM) }
func VC01_Multipoint()    { mateQuick(propC01, mateMultipointM) }
func VC01_MultipointAvg() { mateQuick(propC01, mateMultipointAvgM) }
func VC01_SinglePoint()   { mateQuick(propC01, mateSinglePointM) }
func VC04_Large() {
	c1, c2 := mateShapes(9)
	vcMate(propC04, vChoice("method", 3), c1, c2)
}
func VC01_Large() {
	c1, c2 := mateShapes(9)
	vcMate(propC01, vChoice("method", 3), c1, c2)
}

// a genome mated with itself (mom and dad are the same organism): every inheritance rule still applies and the
// child must not share state with that parent
func VC04_SelfMating() {
	mateSelf = true
	defer func() { mateSelf = false }()
	c := pcfg(true, lInOut, lInHid, lHidOut)
	vcMate(propC04, vChoice("method", 3), c, c)
}
