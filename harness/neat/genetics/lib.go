package genetics

// Harness support library for package genetics: symbolic genome templates, the well-formedness predicate of C01,
// value snapshots and comparators. Oracles are written from the property statements, not from the code.

import (
	"github.com/yaricom/goNEAT/v4/neat"
	neatmath "github.com/yaricom/goNEAT/v4/neat/math"
	"github.com/yaricom/goNEAT/v4/neat/network"
)

const (
	tMaxInnov = 1000
	tMaxW     = 100
)

type tmplCfg struct {
	outputs    int      // 1..2
	hidden     int      // 0..2
	genes      int      // number of connection genes
	traits     int      // 1..2
	nilTraits  bool     // nodes/links may carry a nil trait (forked)
	params     int      // trait parameter count
	fixedBase  bool     // first two genes are input->out1 and bias->out1 (XOR-like start), remaining ones forked
	symRecur   bool     // recurrent flags symbolic (else false)
	symEnable  bool     // enabled flags symbolic (else true)
	links      [][2]int // explicit endpoints (indices into the node list) for the first len(links) genes
	hiddenGap  bool     // hidden node ids start two above the last output id (a recorded node id may lie in between)
	biasFree   bool     // with fixedBase: the second base gene is input->last node, so the bias sensor is unconnected
	lateInput  bool     // an additional input sensor with the LAST id (sensors need not come first in a genome)
	lateOutput bool     // an additional, unconnected output node with the LAST id (a hidden node precedes it in the node list)
}

func tTraits(tag string, c tmplCfg) []*neat.Trait {
	ts := make([]*neat.Trait, 0, c.traits)
	for i := 0; i < c.traits; i++ {
		t := &neat.Trait{Id: i + 1, Params: make([]float64, c.params)}
		for k := 0; k < c.params; k++ {
			p := vFloat(tag + ".trait.param")
			vAssume(vAnd(p >= 0, p <= tMaxW))
			t.Params[k] = p
		}
		ts = append(ts, t)
	}
	return ts
}

// tPickTrait: deterministic round-robin assignment, except where fork is set: then every trait and (if
// allowNil) the nil trait are explored.
func tPickTrait(tag string, ts []*neat.Trait, fork, allowNil bool, rr int) *neat.Trait {
	if !fork {
		return ts[rr%len(ts)]
	}
	n := len(ts)
	if allowNil {
		n++
	}
	k := 0
	if n > 1 {
		k = vChoice(tag+".trait", n)
	}
	if k >= len(ts) {
		return nil
	}
	return ts[k]
}

// tNodes: id 1 input, id 2 bias, then outputs, then hidden nodes; ids ascending.
func tNodes(tag string, ts []*neat.Trait, c tmplCfg) []*network.NNode {
	nodes := make([]*network.NNode, 0, 2+c.outputs+c.hidden)
	in := network.NewSensorNode(1, false)
	bias := network.NewSensorNode(2, true)
	in.Trait = tPickTrait(tag+".in", ts, false, false, 0)
	bias.Trait = tPickTrait(tag+".bias", ts, false, false, 1)
	nodes = append(nodes, in, bias)
	id := 3
	for i := 0; i < c.outputs; i++ {
		n := network.NewNNode(id, network.OutputNeuron)
		n.Trait = tPickTrait(tag+".out", ts, c.nilTraits && c.hidden == 0 && i == c.outputs-1, true, i)
		nodes = append(nodes, n)
		id++
	}
	if c.hiddenGap {
		id += 2
	}
	for i := 0; i < c.hidden; i++ {
		n := network.NewNNode(id, network.HiddenNeuron)
		n.ActivationType = neatmath.TanhActivation
		n.Trait = tPickTrait(tag+".hid", ts, c.nilTraits && i == c.hidden-1, true, i+1)
		nodes = append(nodes, n)
		id++
	}
	if c.lateOutput {
		lo := network.NewNNode(id, network.OutputNeuron)
		id++
		lo.Trait = tPickTrait(tag+".lateout", ts, false, false, 0)
		nodes = append(nodes, lo)
	}
	if c.lateInput {
		late := network.NewSensorNode(id, false)
		late.Trait = tPickTrait(tag+".late", ts, false, false, 0)
		nodes = append(nodes, late)
	}
	return nodes
}

// tGenes: endpoints forked over all legal ordered pairs (target not a sensor), scalars symbolic.
func tGenes(tag string, ts []*neat.Trait, nodes []*network.NNode, c tmplCfg) []*Gene {
	genes := make([]*Gene, 0, c.genes)
	prev := 0
	nonSensors := len(nodes) - 2
	if c.lateInput {
		nonSensors--
	}
	if c.lateOutput {
		nonSensors-- // the late output stays unconnected unless named in links
	}
	for i := 0; i < c.genes; i++ {
		var inN, outN *network.NNode
		if i < len(c.links) {
			inN, outN = nodes[c.links[i][0]], nodes[c.links[i][1]]
		} else if c.fixedBase && i < 2 {
			inN, outN = nodes[i], nodes[2]
			if c.biasFree && i == 1 {
				inN, outN = nodes[0], nodes[len(nodes)-1]
			}
		} else {
			inN = nodes[vChoice(tag+".gene.in", len(nodes))]
			outN = nodes[2+vChoice(tag+".gene.out", nonSensors)]
		}
		innov := vInt(tag + ".gene.innov")
		vAssume(vAnd(innov > prev, innov <= tMaxInnov))
		prev = innov
		w := vFloat(tag + ".gene.weight")
		vAssume(vAnd(w >= -tMaxW, w <= tMaxW))
		m := vFloat(tag + ".gene.mutnum")
		vAssume(vAnd(m >= -tMaxW, m <= tMaxW))
		recur := false
		if c.symRecur {
			recur = vBool(tag + ".gene.recur")
		}
		g := NewGeneWithTrait(tPickTrait(tag+".gene", ts, c.nilTraits && i == c.genes-1, true, i), w, inN, outN, recur, int64(innov), m)
		if c.symEnable {
			g.IsEnabled = vBool(tag + ".gene.enabled")
		}
		// no two genes join the same ordered pair with the same recurrence flag
		for _, o := range genes {
			if o.Link.InNode == inN && o.Link.OutNode == outN {
				vAssume(o.Link.IsRecurrent != recur)
			}
		}
		genes = append(genes, g)
	}
	return genes
}

func tGenome(tag string, id int, c tmplCfg) *Genome {
	ts := tTraits(tag, c)
	nodes := tNodes(tag, ts, c)
	genes := tGenes(tag, ts, nodes, c)
	return NewGenome(id, ts, nodes, genes)
}

// ---------- well-formedness (C01), written from the statement ----------

func isSensorType(t network.NodeNeuronType) bool {
	return t == network.InputNeuron || t == network.BiasNeuron
}

// wfCheck asserts every clause of the well-formedness statement on g; tag prefixes the messages.
func wfCheck(g *Genome, tag string) {
	ascending := true
	for i := 1; i < len(g.Genes); i++ {
		ascending = vAnd(ascending, g.Genes[i-1].InnovationNum < g.Genes[i].InnovationNum)
	}
	vAssert(ascending, tag+": genes in strictly ascending innovation order")
	nodup := true
	for i := 0; i < len(g.Genes); i++ {
		for j := i + 1; j < len(g.Genes); j++ {
			a, b := g.Genes[i].Link, g.Genes[j].Link
			same := vAnd(a.InNode.Id == b.InNode.Id, a.OutNode.Id == b.OutNode.Id)
			nodup = vAnd(nodup, !vAnd(same, a.IsRecurrent == b.IsRecurrent))
		}
	}
	vAssert(nodup, tag+": no two genes join the same ordered node pair with the same recurrence flag")
	nodesOK := true
	for i := 1; i < len(g.Nodes); i++ {
		nodesOK = vAnd(nodesOK, g.Nodes[i-1].Id < g.Nodes[i].Id)
	}
	vAssert(nodesOK, tag+": nodes in ascending order of unique ids")
	own, lookup, noSensorTarget := true, true, true
	for _, gn := range g.Genes {
		inOwn, outOwn := false, false
		for _, n := range g.Nodes {
			if n == gn.Link.InNode {
				inOwn = true
			}
			if n == gn.Link.OutNode {
				outOwn = true
			}
		}
		own = own && inOwn && outOwn
		if isSensorType(gn.Link.OutNode.NeuronType) {
			noSensorTarget = false
		}
	}
	for _, n := range g.Nodes {
		if g.NodeWithId(n.Id) != n {
			lookup = false
		}
	}
	vAssert(own, tag+": every gene endpoint is one of the genome's own nodes")
	vAssert(lookup, tag+": looking a node up by id returns it")
	vAssert(noSensorTarget, tag+": no connection ends in an input or bias node")
	traitsOwn := true
	ownTrait := func(t *neat.Trait) bool {
		if t == nil {
			return true
		}
		for _, x := range g.Traits {
			if x == t {
				return true
			}
		}
		return false
	}
	for _, n := range g.Nodes {
		traitsOwn = traitsOwn && ownTrait(n.Trait)
	}
	for _, gn := range g.Genes {
		traitsOwn = traitsOwn && ownTrait(gn.Link.Trait)
	}
	vAssert(traitsOwn, tag+": every trait reference is one of the genome's own traits")
}

// ioRetained asserts that all input, bias and output nodes of anc are present in g with the same role.
func ioRetained(g, anc *Genome, tag string) {
	ok := true
	for _, n := range anc.Nodes {
		if n.NeuronType == network.HiddenNeuron {
			continue
		}
		found := false
		for _, m := range g.Nodes {
			if m.NeuronType == n.NeuronType {
				found = vOr(found, m.Id == n.Id)
			}
		}
		ok = vAnd(ok, found)
	}
	vAssert(ok, tag+": all input, bias and output nodes of the ancestors are retained")
}

func genesisOK(g *Genome, tag string) {
	_, err := g.Genesis(1)
	vAssert(err == nil, tag+": can be expressed as a network without error")
}

// ---------- snapshots ----------

type geneSnap struct {
	in, out  int
	weight   float64
	innov    int64
	mut      float64
	enabled  bool
	recur    bool
	traitId  int
	hasTrait bool
}

type nodeSnap struct {
	id       int
	ntype    network.NodeNeuronType
	atype    neatmath.NodeActivationType
	traitId  int
	hasTrait bool
}

type genomeSnap struct {
	genes  []geneSnap
	nodes  []nodeSnap
	traits [][]float64
	tids   []int
}

func snapGene(g *Gene) geneSnap {
	s := geneSnap{in: g.Link.InNode.Id, out: g.Link.OutNode.Id, weight: g.Link.ConnectionWeight, innov: g.InnovationNum,
		mut: g.MutationNum, enabled: g.IsEnabled, recur: g.Link.IsRecurrent}
	if g.Link.Trait != nil {
		s.hasTrait, s.traitId = true, g.Link.Trait.Id
	}
	return s
}

func snap(g *Genome) *genomeSnap {
	s := &genomeSnap{}
	for _, gn := range g.Genes {
		s.genes = append(s.genes, snapGene(gn))
	}
	for _, n := range g.Nodes {
		ns := nodeSnap{id: n.Id, ntype: n.NeuronType, atype: n.ActivationType}
		if n.Trait != nil {
			ns.hasTrait, ns.traitId = true, n.Trait.Id
		}
		s.nodes = append(s.nodes, ns)
	}
	for _, t := range g.Traits {
		s.traits = append(s.traits, append([]float64{}, t.Params...))
		s.tids = append(s.tids, t.Id)
	}
	return s
}

func geneSnapEq(a, b geneSnap) bool {
	if a.in != b.in || a.out != b.out || a.hasTrait != b.hasTrait || a.traitId != b.traitId {
		return false
	}
	r := vAnd(a.weight == b.weight, a.innov == b.innov)
	r = vAnd(r, a.mut == b.mut)
	r = vAnd(r, a.enabled == b.enabled)
	return vAnd(r, a.recur == b.recur)
}

// sameStructure: nodes, gene endpoints, innovation numbers, recurrence flags, trait wiring (not weights/flags).
func sameNodes(a, b *genomeSnap) bool {
	if len(a.nodes) != len(b.nodes) {
		return false
	}
	for i := range a.nodes {
		if a.nodes[i] != b.nodes[i] {
			return false
		}
	}
	return true
}

func sameTraits(a, b *genomeSnap) bool {
	if len(a.traits) != len(b.traits) {
		return false
	}
	r := true
	for i := range a.traits {
		if a.tids[i] != b.tids[i] || len(a.traits[i]) != len(b.traits[i]) {
			return false
		}
		for k := range a.traits[i] {
			r = vAnd(r, a.traits[i][k] == b.traits[i][k])
		}
	}
	return r
}

func sameGenes(a, b *genomeSnap) bool {
	if len(a.genes) != len(b.genes) {
		return false
	}
	r := true
	for i := range a.genes {
		r = vAnd(r, geneSnapEq(a.genes[i], b.genes[i]))
	}
	return r
}

func sameSnap(a, b *genomeSnap) bool {
	return vAnd(vAnd(sameNodes(a, b), sameTraits(a, b)), sameGenes(a, b))
}

// ---------- options ----------

var tNewLinkTries = 1

func tOpts() *neat.Options {
	o := &neat.Options{}
	o.NodeActivators = []neatmath.NodeActivationType{neatmath.SigmoidSteepenedActivation}
	o.NodeActivatorsProb = []float64{1.0}
	o.NewLinkTries = tNewLinkTries
	pr := func(n string) float64 {
		p := vFloat("opt." + n)
		vAssume(vAnd(p >= 0, p <= 1))
		return p
	}
	o.RecurOnlyProb = pr("RecurOnlyProb")
	o.MutateRandomTraitProb = pr("MutateRandomTraitProb")
	o.MutateLinkTraitProb = pr("MutateLinkTraitProb")
	o.MutateNodeTraitProb = pr("MutateNodeTraitProb")
	o.MutateLinkWeightsProb = pr("MutateLinkWeightsProb")
	o.MutateToggleEnableProb = pr("MutateToggleEnableProb")
	o.MutateGeneReenableProb = pr("MutateGeneReenableProb")
	o.TraitParamMutProb = pr("TraitParamMutProb")
	o.TraitMutationPower = pr("TraitMutationPower")
	o.WeightMutPower = vFloat("opt.WeightMutPower")
	vAssume(vAnd(o.WeightMutPower >= 0, o.WeightMutPower <= 10))
	return o
}
