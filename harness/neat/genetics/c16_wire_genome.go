package genetics

import (
	"bufio"
	"bytes"
	"io"
	"strings"

	"github.com/yaricom/goNEAT/v4/neat/network"
)

// The structural half of the wire format for a WHOLE genome (what a baby of the parallel executor goes through):
// the real plainGenomeWriter.WriteGenome and the real plainGenomeReader.Read run symbolically, joined by a stub
// channel that carries the text as lines of typed tokens - keyword, then the values handed to Fprintf in order.
// What is real: which lines are written in which order, trait id 0 for "no trait", node type codes and activation
// names, the reader's dispatch on the keyword, uniqueness checks, trait / node lookup by id, the order of traits,
// nodes and genes. What is assumed (C15): that a number survives formatting and parsing unchanged.

type c16TextLine struct {
	key  string
	toks []interface{}
}

var c16Text struct {
	lines []c16TextLine
	rpos  int // line the reader is on (1-based after Scan)
	tpos  int // next token of that line
}

func c16gFprintf(w io.Writer, format string, a ...interface{}) (int, error) {
	switch format {
	case "genomestart %d\n":
		c16Text.lines = append(c16Text.lines, c16TextLine{key: "genomestart", toks: a})
	case "genomeend %d\n":
		c16Text.lines = append(c16Text.lines, c16TextLine{key: "genomeend", toks: a})
	default:
		l := &c16Text.lines[len(c16Text.lines)-1]
		l.toks = append(l.toks, a...)
	}
	return 0, nil
}
func c16gFprint(w io.Writer, a ...interface{}) (int, error) {
	switch a[0].(string) {
	case "trait ":
		c16Text.lines = append(c16Text.lines, c16TextLine{key: "trait"})
	case "node ":
		c16Text.lines = append(c16Text.lines, c16TextLine{key: "node"})
	case "gene ":
		c16Text.lines = append(c16Text.lines, c16TextLine{key: "gene"})
	}
	return 0, nil
}
func c16gFprintln(w io.Writer, a ...interface{}) (int, error) {
	if len(a) == 5 {
		// the organism header: fitness, generation, highest fitness, champion-child flag, genome id
		c16Text.lines = append(c16Text.lines, c16TextLine{key: "organism", toks: a})
	}
	return 0, nil
}
func c16gFscanln(r io.Reader, a ...interface{}) (int, error) {
	c16Text.rpos, c16Text.tpos = 1, 0 // the header is the first line of the organism's text
	return c16gFscanf(r, "", a...)
}
func c16gBufferBytes(b *bytes.Buffer) []byte { return nil }
func c16gNewBuffer(b []byte) *bytes.Buffer   { return new(bytes.Buffer) }

func c16gNewScanner(r io.Reader) *bufio.Scanner            { return new(bufio.Scanner) }
func c16gScannerSplit(s *bufio.Scanner, f bufio.SplitFunc) {}
func c16gScannerErr(s *bufio.Scanner) error                { return nil }
func c16gScannerScan(s *bufio.Scanner) bool {
	if c16Text.rpos >= len(c16Text.lines) {
		return false
	}
	c16Text.rpos++
	c16Text.tpos = 0
	return true
}
func c16gScannerText(s *bufio.Scanner) string { return c16Text.lines[c16Text.rpos-1].key }
func c16gSplitN(s, sep string, n int) []string {
	return []string{c16Text.lines[c16Text.rpos-1].key, "rest"}
}
func c16gStringsNewReader(s string) *strings.Reader      { return new(strings.Reader) }
func c16gNewReader(r io.Reader) *bufio.Reader            { return new(bufio.Reader) }
func c16gReadLine(r *bufio.Reader) ([]byte, bool, error) { return nil, false, nil }
func c16gFscanf(r io.Reader, format string, a ...interface{}) (int, error) {
	l := c16Text.lines[c16Text.rpos-1]
	for _, p := range a {
		v := l.toks[c16Text.tpos]
		c16Text.tpos++
		switch x := p.(type) {
		case *int:
			*x = v.(int)
		case *int64:
			*x = v.(int64)
		case *float64:
			*x = v.(float64)
		case *bool:
			*x = v.(bool)
		}
	}
	return len(a), nil
}

// a node line is split into fields and its numbers are parsed one by one: the fields are handed out as markers
var c16Markers = []string{"#0", "#1", "#2", "#3"}

func c16gSplit(s, sep string) []string {
	l := c16Text.lines[c16Text.rpos-1]
	out := append([]string{}, c16Markers...)
	if len(l.toks) == 5 {
		out = append(out, l.toks[4].(string)) // the activation name travels as itself
	}
	return out
}
func c16gParseInt(s string, base int, bitSize int) (int64, error) {
	l := c16Text.lines[c16Text.rpos-1]
	for i, m := range c16Markers {
		if s == m {
			switch x := l.toks[i].(type) {
			case int:
				return int64(x), nil
			case network.NodeType:
				return int64(x), nil
			case network.NodeNeuronType:
				return int64(x), nil
			}
		}
	}
	return 0, nil
}

func VC16_WireGenome() {
	c16Text.lines, c16Text.rpos, c16Text.tpos = nil, 0, 0
	cfg := tmplCfg{outputs: 1, hidden: 1, genes: 3, traits: 2, params: 8, symRecur: true, symEnable: true, nilTraits: true,
		links: [][2]int{{3, 3}, {0, 3}, {3, 2}}}
	if vChoice("node order", 2) == 1 {
		cfg.lateInput = true // an input listed after the hidden node
	}
	g := tGenome("g", 5, cfg)
	var buf bytes.Buffer
	vAssume(g.Write(&buf) == nil)
	got, err := ReadGenome(&buf, 5)
	vAssert(err == nil, "C16 wire: a written genome reads back without error")
	if err != nil {
		return
	}
	s0, s1 := snap(g), snap(got)
	vAssert(sameNodes(s0, s1), "C16 wire: the decoded genome has the same nodes (ids, roles, activation types, traits) in the same order")
	vAssert(sameGenes(s0, s1), "C16 wire: the decoded genome has the same genes in the same order")
	vAssert(sameTraits(s0, s1), "C16 wire: the decoded genome has the same traits")
	wfCheck(got, "C16 wire: decoded genome")
	vReach("end")
}

// an organism's binary form (what the goroutines hand to the gob encoder): header line + genome text
func VC16_WireOrganism() {
	c16Text.lines, c16Text.rpos, c16Text.tpos = nil, 0, 0
	cfg := tmplCfg{outputs: 1, hidden: 1, genes: 2, traits: 1, params: 8, symRecur: true, symEnable: true, links: [][2]int{{0, 3}, {3, 2}}}
	g := tGenome("g", 5, cfg)
	o := &Organism{Genotype: g}
	o.Fitness, o.highestFitness = vFloat("fitness"), vFloat("highestFitness")
	o.Generation = vInt("generation")
	vAssume(vAnd(o.Generation >= 0, o.Generation <= 100000))
	o.isPopulationChampionChild = vBool("isPopulationChampionChild")
	data, err := o.MarshalBinary()
	vAssume(err == nil)
	got := &Organism{}
	err = got.UnmarshalBinary(data)
	vAssert(err == nil, "C16 wire: an organism's binary form reads back without error")
	if err != nil {
		return
	}
	vAssert(vAnd(got.Fitness == o.Fitness, got.highestFitness == o.highestFitness), "C16 wire: the decoded organism has the fitness values written")
	vAssert(vAnd(got.Generation == o.Generation, got.isPopulationChampionChild == o.isPopulationChampionChild), "C16 wire: the decoded organism has the generation and the champion-child flag written")
	vAssert(got.Genotype != nil && got.Genotype.Id == g.Id, "C16 wire: the decoded organism's genome has the original's id")
	if got.Genotype == nil {
		return
	}
	s0, s1 := snap(g), snap(got.Genotype)
	vAssert(sameNodes(s0, s1) && sameGenes(s0, s1) && sameTraits(s0, s1), "C16 wire: the decoded organism carries the same genome")
	vReach("end")
}
