package genetics

import (
	"context"
	"time"

	"github.com/yaricom/goNEAT/v4/neat"
	"github.com/yaricom/goNEAT/v4/neat/network"
)

// Population-level kernels: C08 (speciation), C09 (offspring quotas), C10 (champion survives), C02 (epoch
// conserves size and keeps species a partition). Each kernel runs the REAL function from an arbitrary
// consistent state; the phase boundaries are the contracts listed in DESIGN.md.

// hCtx: a context that only carries the options and is never cancelled.
type hCtx struct{ opts *neat.Options }

var hOpen = make(chan struct{})

func (c *hCtx) Deadline() (time.Time, bool)       { return time.Time{}, false }
func (c *hCtx) Done() <-chan struct{}             { return hOpen }
func (c *hCtx) Err() error                        { return nil }
func (c *hCtx) Value(key interface{}) interface{} { return c.opts }

var _ context.Context = (*hCtx)(nil)

func tinyGenome(id int) *Genome {
	tr := neat.NewTrait()
	tr.Id = 1
	in := network.NewSensorNode(1, false)
	out := network.NewNNode(2, network.OutputNeuron)
	in.Trait, out.Trait = tr, tr
	g := NewGeneWithTrait(tr, 0.5, in, out, false, 1, 0.5)
	return NewGenome(id, []*neat.Trait{tr}, []*network.NNode{in, out}, []*Gene{g})
}

// symPopulation: ns species with sizes[i] organisms each; fitness symbolic >= 0.
func symPopulation(sizes []int, fitLabel string) *Population {
	pop := newPopulation()
	id := 0
	for si, n := range sizes {
		sp := NewSpecies(si + 1)
		age := vInt("species.age")
		vAssume(vAnd(age >= 1, age <= 40))
		sp.Age = age
		ali := vInt("species.ageOfLastImprovement")
		vAssume(vAnd(ali >= 0, ali <= age))
		sp.AgeOfLastImprovement = ali
		mf := vFloat("species.maxFitnessEver")
		vAssume(vAnd(mf >= 0, mf <= 1000))
		sp.MaxFitnessEver = mf
		for k := 0; k < n; k++ {
			f := vFloat(fitLabel)
			vAssume(vAnd(f >= 0, f <= 1000))
			org := &Organism{Fitness: f, Genotype: tinyGenome(id), Species: sp, Generation: 1}
			id++
			sp.Organisms = append(sp.Organisms, org)
			pop.Organisms = append(pop.Organisms, org)
		}
		pop.Species = append(pop.Species, sp)
	}
	pop.LastSpecies = len(sizes)
	return pop
}

func symEpochOpts(popSize int) *neat.Options {
	o := &neat.Options{PopSize: popSize}
	o.DropOffAge = vInt("opt.DropOffAge")
	vAssume(vAnd(o.DropOffAge >= 1, o.DropOffAge <= 30))
	o.AgeSignificance = vFloat("opt.AgeSignificance")
	vAssume(vAnd(o.AgeSignificance >= 1, o.AgeSignificance <= 3))
	o.SurvivalThresh = vFloat("opt.SurvivalThresh")
	vAssume(vAnd(o.SurvivalThresh > 0, o.SurvivalThresh <= 1))
	return o
}

func speciesShapes(k int) []int {
	switch k {
	case 0:
		return []int{2}
	case 1:
		return []int{2, 1}
	case 2:
		return []int{1, 2}
	case 3:
		return []int{3}
	case 4:
		return []int{2, 2}
	case 5:
		return []int{1, 1, 2}
	}
	return []int{3, 2, 1}
}

// ---------- C09 (a)+(e): adjustFitness, expected offspring, parent cut ----------

// c09CountStub stands in for Species.countOffspring in the kernel that checks the normalisation (a) and the
// parent cut (e): an arbitrary non-negative quota. countOffspring itself is kernels (b) and (c).
func c09CountStub(s *Species, skim float64) (int, float64) {
	q := vInt("quota (countOffspring stub)")
	vAssume(vAnd(q >= 0, q <= 50))
	return q, skim
}

func vc09Adjust(shapes int) {
	sizes := speciesShapes(vChoice("shape", shapes))
	pop := symPopulation(sizes, "fitness")
	n := len(pop.Organisms)
	opts := symEpochOpts(n)
	anyPos := false
	for _, o := range pop.Organisms {
		anyPos = vOr(anyPos, o.Fitness > 0)
	}
	vAssume(anyPos)
	orig := make([]float64, n)
	for i, o := range pop.Organisms {
		orig[i] = o.Fitness
	}
	// reference NEAT rule for the species-shared, age-adjusted fitness (documented with the options
	// "age_significance", "dropoff_age"): a species that has not improved for drop-off-age generations is penalised
	// by a factor 0.01, a species up to ten generations old is boosted by the age significance, and the result is
	// shared among the members (divided by the species size)
	type expect struct {
		o    *Organism
		want float64
	}
	var wants []expect
	for _, sp := range pop.Species {
		stagnant := (sp.Age-sp.AgeOfLastImprovement+1)-opts.DropOffAge >= 0
		young := sp.Age <= 10
		for _, o := range sp.Organisms {
			f := o.Fitness
			f = vIteF(stagnant, f*0.01, f)
			f = vIteF(young, f*opts.AgeSignificance, f)
			wants = append(wants, expect{o, f / float64(len(sp.Organisms))})
		}
	}
	for _, sp := range pop.Species {
		sp.adjustFitness(opts)
	}
	for _, w := range wants {
		vAssertEqF(w.o.Fitness, w.want, "C09: shared fitness = age-adjusted fitness (0.01 penalty when stagnant, age-significance boost up to age ten) / species size")
	}
	// species-shared: within a species the adjusted fitness is one age factor times original/size
	for _, sp := range pop.Species {
		for _, a := range sp.Organisms {
			for _, b := range sp.Organisms {
				vAssert(vImplies(a.originalFitness == b.originalFitness, a.Fitness == b.Fitness), "C09: organisms of one species with equal fitness get equal shared fitness")
				vAssert(vImplies(a.originalFitness <= b.originalFitness, a.Fitness <= b.Fitness), "C09: sharing preserves the fitness order inside a species")
			}
			vAssert(a.Fitness >= 0, "C09: shared fitness is non-negative")
		}
		// organisms are now in descending fitness order; the first floor(thresh*n)+1 stay available as parents
		sorted := true
		for i := 1; i < len(sp.Organisms); i++ {
			sorted = vAnd(sorted, sp.Organisms[i-1].Fitness >= sp.Organisms[i].Fitness)
		}
		vAssert(sorted, "C09: species organisms are ordered by fitness (best first)")
	}
	sizesBefore := make([]int, len(pop.Species))
	for i, sp := range pop.Species {
		sizesBefore[i] = len(sp.Organisms)
	}
	allSpecies := append([]*Species{}, pop.Species...)
	before := make([][]*Organism, len(allSpecies))
	for i, sp := range allSpecies {
		before[i] = append([]*Organism{}, sp.Organisms...)
	}
	pop.purgeZeroOffspringSpecies(1)
	total := 0.0
	for _, o := range pop.Organisms {
		total += o.Fitness
	}
	mean := total / float64(n)
	for _, o := range pop.Organisms {
		vAssertEqF(o.ExpectedOffspring*mean, o.Fitness, "C09: expected offspring x population mean of shared fitness = shared fitness")
	}
	err := pop.purgeOrganisms()
	vAssert(err == nil, "C09: purging non-parents succeeds")
	for i, sp := range allSpecies {
		nb := sizesBefore[i]
		keep := vConcrete(int(floorF(opts.SurvivalThresh*float64(nb) + 1.0)))
		if keep > nb {
			keep = nb
		}
		vAssert(len(sp.Organisms) == keep, "C09: exactly floor(survival_thresh*n)+1 organisms of a species remain available as parents")
		for k, o := range before[i] {
			in := false
			for _, r := range sp.Organisms {
				if r == o {
					in = true
				}
			}
			vAssert(in == (k < keep), "C09: the organisms that remain are the top ones by fitness")
		}
	}
	quotaSum := 0
	for _, sp := range allSpecies {
		listed := false
		for _, q := range pop.Species {
			if q == sp {
				listed = true
			}
		}
		vAssert(vImplies(sp.ExpectedOffspring == 0, !listed), "C09: a species with a zero quota does not reproduce")
		vAssert(vImplies(sp.ExpectedOffspring > 0, listed), "C09: a species with a positive quota stays")
		quotaSum += sp.ExpectedOffspring
	}
	vReach("end")
}

func floorF(x float64) float64 {
	i := float64(int(x))
	return vIteF(i > x, i-1, i)
}

// ---------- C09 (b): countOffspring carries fractions ----------

func vc09Count(maxN int) {
	n := 1 + vChoice("organisms", maxN)
	sp := NewSpecies(1)
	sum := 0.0
	for i := 0; i < n; i++ {
		e := vFloat("expectedOffspring")
		vAssume(vAnd(e >= 0, e <= 50))
		sp.Organisms = append(sp.Organisms, &Organism{ExpectedOffspring: e})
		sum += e
	}
	skim := vFloat("skim.in")
	vAssume(vAnd(skim >= 0, skim < 1))
	q, out := sp.countOffspring(skim)
	vAssertEqF(float64(q)+out, sum+skim, "C09: quota + carried-out fraction = sum of members' expected offspring + carried-in fraction")
	vAssert(vAnd(out >= 0, out < 1), "C09: the carried fraction stays in [0,1)")
	vAssert(q >= 0, "C09: a quota is never negative")
	vReach("end")
}

// ---------- C09 (c): quotas total the population size; per-species deviation ----------

func vc09Quotas(shapes int, loose bool) {
	sizes := speciesShapes(vChoice("shape", shapes))
	pop := newPopulation()
	n := 0
	sum := 0.0
	memberSum := make([]float64, len(sizes))
	for si, k := range sizes {
		sp := NewSpecies(si + 1)
		for j := 0; j < k; j++ {
			e := vFloat("expectedOffspring")
			vAssume(vAnd(e >= 0, e <= 50))
			// fitness 0 for everyone: the code then keeps the expected offspring values it finds (arbitrary ones here)
			org := &Organism{Fitness: 0, ExpectedOffspring: e, Species: sp}
			sp.Organisms = append(sp.Organisms, org)
			pop.Organisms = append(pop.Organisms, org)
			sum += e
			memberSum[si] += e
			n++
		}
		pop.Species = append(pop.Species, sp)
	}
	all := append([]*Species{}, pop.Species...)
	// over the reals sum(e) = N exactly (C09 a); the interval is the allowance for rounding in the normalisation
	if loose {
		vAssume(vAnd(sum > float64(n)-3, sum < float64(n)+1))
	} else {
		vAssume(vAnd(sum > float64(n)-1, sum < float64(n)+1))
	}
	pop.purgeZeroOffspringSpecies(1)
	total := 0
	extra := 0
	for i, sp := range all {
		total += sp.ExpectedOffspring
		if !loose {
			d := float64(sp.ExpectedOffspring) - memberSum[i]
			// differs by less than one, plus the single make-up offspring one species may receive
			vAssert(vAnd(d > -1, d < 2), "C09: a quota differs from the sum of its members' expected offspring by less than one (plus the make-up offspring)")
			extra += vIteI(d >= 1, 1, 0)
		}
	}
	vAssert(total == n, "C09: the quotas total exactly the population size")
	if !loose {
		vAssert(extra <= 1, "C09: at most one species receives the make-up offspring")
	}
	for _, sp := range pop.Species {
		vAssert(sp.ExpectedOffspring > 0, "C09: only species with a positive quota remain")
	}
	vReach("end")
}

// ---------- C09 (d): stolen babies and delta coding preserve the total ----------

func sortedSpeciesWithQuotas(ns int, popSize int) ([]*Species, *neat.Options) {
	opts := &neat.Options{PopSize: popSize}
	opts.DropOffAge = vInt("opt.DropOffAge")
	vAssume(vAnd(opts.DropOffAge >= 1, opts.DropOffAge <= 30))
	opts.BabiesStolen = vInt("opt.BabiesStolen")
	vAssume(vAnd(opts.BabiesStolen >= 0, opts.BabiesStolen*2 <= popSize))
	var ss []*Species
	sum := 0
	for i := 0; i < ns; i++ {
		sp := NewSpecies(i + 1)
		sp.Age = vInt("species.age")
		vAssume(vAnd(sp.Age >= 1, sp.Age <= 40))
		sp.AgeOfLastImprovement = vInt("species.ageOfLastImprovement")
		vAssume(vAnd(sp.AgeOfLastImprovement >= 0, sp.AgeOfLastImprovement <= sp.Age))
		sp.ExpectedOffspring = vInt("species.quota")
		vAssume(vAnd(sp.ExpectedOffspring >= 1, sp.ExpectedOffspring <= popSize))
		sum += sp.ExpectedOffspring
		sp.Organisms = append(sp.Organisms, &Organism{Species: sp})
		ss = append(ss, sp)
	}
	vAssume(sum == popSize)
	return ss, opts
}

func vc09Redistribute(maxSpecies, popSizeBase int) {
	// an odd and an even population size; the larger one makes the stolen-babies blocks (N/5, N/5, N/10) exceed one
	popSize := []int{popSizeBase + 1, 2*popSizeBase + 1, 2 * popSizeBase}[vChoice("PopSize", 3)]
	ns := 1 + vChoice("species", maxSpecies)
	ss, opts := sortedSpeciesWithQuotas(ns, popSize)
	pop := newPopulation()
	if vChoice("deltaCoding", 2) == 1 {
		pop.deltaCoding(ss, opts)
	} else {
		pop.giveBabiesToTheBest(ss, opts)
	}
	total := 0
	for _, sp := range ss {
		total += sp.ExpectedOffspring
		vAssert(sp.ExpectedOffspring >= 0, "C09: redistribution never makes a quota negative")
		vAssert(sp.Organisms[0].superChampOffspring <= sp.ExpectedOffspring, "C09: offspring reserved for a species champion never exceed the species quota")
	}
	vAssert(total == popSize, "C09: the quotas still total the population size after babies are stolen / delta coding")
	vReach("end")
}

func VC09_Adjust_Quick()          { vc09Adjust(2) }
func VC09_Count_Quick()           { vc09Count(3) }
func VC09_Quotas_Quick()          { vc09Quotas(5, false) }
func VC09_QuotasLoose_Quick()     { vc09Quotas(3, true) }
func VC09_Redistribute_Quick()    { vc09Redistribute(3, 10) }
func VC09_Adjust_Thorough()       { vc09Adjust(5) }
func VC09_Count_Thorough()        { vc09Count(5) }
func VC09_Quotas_Thorough()       { vc09Quotas(7, false) }
func VC09_Redistribute_Thorough() { vc09Redistribute(4, 20) }
