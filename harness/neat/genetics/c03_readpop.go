package genetics

import (
	"bufio"
	"bytes"
	"io"

	"github.com/yaricom/goNEAT/v4/neat"
)

// C03 for a population restored from a file: after ReadPopulation the counters are at least every innovation number
// and node id any of the genomes holds, so whatever is issued next is larger than anything the population held before.
// ReadPopulation's own logic runs for real; the text layer around it (line scanner, string splitting, the genome
// parser) is replaced by stubs that feed it the line structure of a population file and hand back the harness
// genomes in file order. Natively nothing is stubbed: the genomes are written with the real writer and parsed back.

var c03File struct {
	genomes []*Genome
	lines   [][2]string
	pos     int // line being processed (1-based after Scan)
	next    int // next genome to hand out
}

func c03NewScanner(r io.Reader) *bufio.Scanner            { return new(bufio.Scanner) }
func c03ScannerSplit(s *bufio.Scanner, f bufio.SplitFunc) {}
func c03ScannerErr(s *bufio.Scanner) error                { return nil }
func c03ScannerScan(s *bufio.Scanner) bool {
	if c03File.pos >= len(c03File.lines) {
		return false
	}
	c03File.pos++
	return true
}
func c03ScannerText(s *bufio.Scanner) string { return c03File.lines[c03File.pos-1][0] }
func c03SplitN(s, sep string, n int) []string {
	l := c03File.lines[c03File.pos-1]
	return []string{l[0], l[1]}
}
func c03Atoi(s string) (int, error)               { return c03File.genomes[c03File.next].Id, nil }
func c03NewBufferString(s string) *bytes.Buffer   { return new(bytes.Buffer) }
func c03NewReader(r io.Reader) *bufio.Reader      { return new(bufio.Reader) }
func c03GenomeWrite(g *Genome, w io.Writer) error { return nil }
func c03ReadGenome(r io.Reader, id int) (*Genome, error) {
	g := c03File.genomes[c03File.next]
	c03File.next++
	return g, nil
}

var c03ReadCfg = tmplCfg{outputs: 1, hidden: 1, genes: 2, traits: 1, params: 8, links: [][2]int{{0, 2}, {0, 3}}}

func VC03_ReadPopulation() {
	n := 2 + vChoice("genomes in the file", 2)
	c03File.genomes, c03File.lines, c03File.pos, c03File.next = nil, nil, 0, 0
	var buf bytes.Buffer
	for i := 0; i < n; i++ {
		cfg := c03ReadCfg
		if vChoice("genome has a second hidden node", 2) == 1 {
			cfg.hidden = 2
		}
		g := tGenome("g", i+1, cfg)
		c03File.genomes = append(c03File.genomes, g)
		c03File.lines = append(c03File.lines, [2]string{"genomestart", "id"}, [2]string{"trait", "..."}, [2]string{"genomeend", "id"})
		vAssume(g.Write(&buf) == nil)
	}
	opts := &neat.Options{CompatThreshold: 3, DisjointCoeff: 1, ExcessCoeff: 1, MutdiffCoeff: 0.4, PopSize: n}
	pop, err := ReadPopulation(&buf, opts)
	vAssert(err == nil, "C03: a written population reads back without error")
	if err != nil {
		return
	}
	vAssert(len(pop.Organisms) == n, "C03: every genome of the file becomes an organism")
	okInnov, okNode := true, true
	for _, g := range c03File.genomes {
		for _, gn := range g.Genes {
			okInnov = vAnd(okInnov, gn.InnovationNum <= pop.nextInnovNum)
		}
		for _, nd := range g.Nodes {
			okNode = vAnd(okNode, nd.Id <= int(pop.nextNodeId))
		}
	}
	vAssert(okInnov, "C03: after reading a population the innovation counter is at least every number any genome holds")
	vAssert(okNode, "C03: after reading a population the node id counter is at least every id any genome holds")
	vReach("end")
}
