package genetics

// C16, "innovation numbers that each denote a single connection" under every interleaving, by one inductive step:
// one real structural mutation from an ARBITRARY state of the shared record (its entries need not be numbered
// consecutively and may stem from other goroutines) with the two shared counters advanced by other goroutines by an
// arbitrary amount between any two draws of this one (their atomicity is what the schedule query establishes).

func c16Interference(label string) int {
	d := vInt(label)
	vAssume(vAnd(d >= 0, d <= 2))
	return d
}
func c16NextInnovationNumber(p *Population) int64 {
	p.nextInnovNum += int64(c16Interference("innovation numbers drawn by other goroutines meanwhile"))
	p.nextInnovNum++
	return p.nextInnovNum
}
func c16NextNodeId(p *Population) int {
	p.nextNodeId += int32(c16Interference("node ids drawn by other goroutines meanwhile"))
	p.nextNodeId++
	return int(p.nextNodeId)
}

func VC16_Step_AddNode() { vcMut(propC16, mutAddNode, cfgSmall, vChoice("record", 2)) }
func VC16_Step_AddLink() { vcMut(propC16, mutAddLink, cfgLink, vChoice("record", 2)) }
