package genetics

// C16, "innovation numbers that each denote a single connection" under every interleaving, by one inductive step:
// one real structural mutation from an ARBITRARY state of the shared record (its entries need not be numbered
// consecutively and may stem from other goroutines) with the two shared counters advanced by other goroutines by an
// arbitrary amount between any two draws of this one (their atomicity is what the schedule query establishes).

func c16Interference(label string) int {
	d := vInt(label)
	vAssume(vAnd(d >= 0, d <= 2))
	return d
}

// numbers and ids handed to THIS goroutine by the counters (everything in between went to other goroutines)
var c16Mine struct {
	innov []int64
	nodes []int
}

func c16NextInnovationNumber(p *Population) int64 {
	p.nextInnovNum += int64(c16Interference("innovation numbers drawn by other goroutines meanwhile"))
	p.nextInnovNum++
	c16Mine.innov = append(c16Mine.innov, p.nextInnovNum)
	return p.nextInnovNum
}
func c16NextNodeId(p *Population) int {
	p.nextNodeId += int32(c16Interference("node ids drawn by other goroutines meanwhile"))
	p.nextNodeId++
	c16Mine.nodes = append(c16Mine.nodes, int(p.nextNodeId))
	return int(p.nextNodeId)
}

// every number a new gene carries was either recorded before (a re-used innovation) or handed to this goroutine by
// the counter: a number computed any other way may have gone to another goroutine in the meantime
func (m *mutScene) checkMine() {
	ok := true
	for _, gn := range m.g.Genes {
		if isOld(gn, m.oldGenes) {
			continue
		}
		mine := false
		for _, r := range m.rec {
			mine = vOr(mine, vOr(gn.InnovationNum == r.InnovationNum, gn.InnovationNum == r.InnovationNum2))
		}
		for _, x := range c16Mine.innov {
			mine = vOr(mine, gn.InnovationNum == x)
		}
		ok = vAnd(ok, mine)
	}
	vAssert(ok, "C16 step: every new gene carries a recorded number or one the counter handed to this goroutine")
	okN := true
	for _, n := range m.g.Nodes {
		if isOld(n, m.oldNodes) {
			continue
		}
		mine := false
		for _, r := range m.rec {
			mine = vOr(mine, vAnd(r.innovationType == newNodeInnType, n.Id == r.NewNodeId))
		}
		for _, x := range c16Mine.nodes {
			mine = vOr(mine, n.Id == x)
		}
		okN = vAnd(okN, mine)
	}
	vAssert(okN, "C16 step: every new node carries a recorded id or one the counter handed to this goroutine")
}

func VC16_Step_AddNode() {
	c16Mine.innov, c16Mine.nodes = nil, nil
	vcMut(propC16, mutAddNode, cfgSmall, vChoice("record", 2))
}
func VC16_Step_AddLink() {
	c16Mine.innov, c16Mine.nodes = nil, nil
	vcMut(propC16, mutAddLink, cfgLink, vChoice("record", 2))
}
