package genetics

import (
	"sort"
	"github.com/yaricom/goNEAT/v4/neat"
)

// C08: speciation puts each organism in its nearest compatible species. Genome.compatibility is replaced by
// a harness function returning an arbitrary non-negative distance per (organism, representative) call and
// recording it, so the solver ranges over ALL distance matrices and thresholds.

type c08Call struct {
	org, rep *Genome
	d        float64
}

var c08Log []c08Call

func c08Compat(g *Genome, og *Genome, opts *neat.Options) float64 {
	d := vFloat("distance")
	vAssume(vAnd(d >= 0, d <= 100))
	c08Log = append(c08Log, c08Call{g, og, d})
	return d
}

func vc08(maxSpecies, maxArrive int) {
	c08Log = nil
	ns := vChoice("existing species", maxSpecies+1)
	na := 1 + vChoice("arriving", maxArrive)
	pop := newPopulation()
	gid := 0
	for i := 0; i < ns; i++ {
		sp := NewSpecies(i + 1)
		members := vChoice("members (0 = a species that lost its organisms and is not yet purged)", 3)
		for k := 0; k < members; k++ {
			o := &Organism{Genotype: tinyGenome(gid), Species: sp}
			gid++
			sp.addOrganism(o)
		}
		if members == 2 && vChoice("members re-ordered since they joined (fitness sort)", 2) == 1 {
			sp.Organisms[0], sp.Organisms[1] = sp.Organisms[1], sp.Organisms[0]
		}
		pop.Species = append(pop.Species, sp)
	}
	last := vInt("LastSpecies")
	vAssume(vAnd(last >= ns, last <= 100))
	pop.LastSpecies = last
	opts := &neat.Options{}
	opts.CompatThreshold = vFloat("CompatThreshold")
	vAssume(vAnd(opts.CompatThreshold > 0, opts.CompatThreshold <= 100))
	var arriving []*Organism
	for i := 0; i < na; i++ {
		arriving = append(arriving, &Organism{Genotype: tinyGenome(100 + i)})
	}
	speciesBefore := append([]*Species{}, pop.Species...)
	repsBefore := make([]*Organism, len(speciesBefore))
	for i, sp := range speciesBefore {
		if len(sp.Organisms) > 0 {
			repsBefore[i] = sp.Organisms[0]
		}
	}
	err := pop.speciate(&hCtx{opts: opts}, arriving)
	vAssert(err == nil, "C08: speciation succeeds")

	thr := opts.CompatThreshold
	nextId := last
	for _, o := range arriving {
		vAssert(o.Species != nil, "C08: every organism is assigned a species")
		if o.Species == nil {
			continue
		}
		listed := 0
		for _, sp := range pop.Species {
			for _, m := range sp.Organisms {
				if m == o {
					listed++
					vAssert(sp == o.Species, "C08: the species that lists an organism is the organism's species")
				}
			}
		}
		vAssert(listed == 1, "C08: every organism is listed by exactly one species")
		// distances this organism was compared with (in call order): one per species that existed at that time
		anyCompatible := false
		minOK := true
		var chosen float64
		chosenSeen := false
		for _, c := range c08Log {
			if c.org != o.Genotype {
				continue
			}
			anyCompatible = vOr(anyCompatible, c.d < thr)
			if o.Species.Organisms[0].Genotype == c.rep && o.Species.Organisms[0] != o {
				chosen, chosenSeen = c.d, true
			}
		}
		founder := o.Species.Organisms[0] == o
		if founder {
			vAssert(!anyCompatible, "C08: a new species is founded only when no representative is closer than the threshold")
			nextId++
			vAssert(o.Species.Id == nextId, "C08: a founded species gets the next fresh id")
			vAssert(o.Species.Age == 1, "C08: a founded species starts at age one")
		} else {
			vAssert(chosenSeen, "C08: a joined species' representative was compared with the organism")
			vAssert(chosen < thr, "C08: the organism is within the threshold of its species' representative")
			for _, c := range c08Log {
				if c.org == o.Genotype {
					minOK = vAnd(minOK, vImplies(c.d < thr, chosen <= c.d))
				}
			}
			vAssert(minOK, "C08: the chosen species is the closest among those closer than the threshold")
		}
	}
	for i, sp := range speciesBefore {
		if repsBefore[i] != nil {
			vAssert(sp.Organisms[0] == repsBefore[i], "C08: the representative (first organism) of an existing species does not change")
		}
	}
	// every representative that existed when an organism arrived was compared with it (none is skipped)
	for _, o := range arriving {
		for i, sp := range speciesBefore {
			if repsBefore[i] == nil {
				continue
			}
			compared := false
			for _, c := range c08Log {
				if c.org == o.Genotype && c.rep == repsBefore[i].Genotype {
					compared = true
				}
			}
			_ = sp
			vAssert(compared, "C08: an arriving organism is compared with the representative of every non-empty species")
		}
	}
	vAssert(pop.LastSpecies == nextId, "C08: the species id counter advances by the number of species founded")
	ids := true
	for i, a := range pop.Species {
		for _, b := range pop.Species[i+1:] {
			ids = vAnd(ids, a.Id != b.Id)
		}
	}
	vAssert(ids, "C08: species ids are unique")
	vReach("end")
}

func VC08_Speciate_Quick()    { vc08(2, 2) }
func VC08_Speciate_Thorough() { vc08(3, 3) }

// the real compatibility functions drive speciation on 1-gene genomes (ties the redirect to C07)
func VC08_RealCompat() {
	pop := newPopulation()
	opts := c07Opts()
	opts.CompatThreshold = vFloat("CompatThreshold")
	vAssume(vAnd(opts.CompatThreshold > 0, opts.CompatThreshold <= 100))
	if vChoice("method", 2) == 0 {
		opts.GenCompatMethod = neat.GenomeCompatibilityMethodLinear
	} else {
		opts.GenCompatMethod = neat.GenomeCompatibilityMethodFast
	}
	a, b, c := c07Genome("a", 1), c07Genome("b", 1), c07Genome("c", 1+vChoice("nc", 2))
	oa, ob, oc := &Organism{Genotype: a}, &Organism{Genotype: b}, &Organism{Genotype: c}
	err := pop.speciate(&hCtx{opts: opts}, []*Organism{oa, ob, oc})
	vAssert(err == nil, "C08: speciation with the real distance succeeds")
	dab := a.compatFast(b, opts)
	vAssert((ob.Species == oa.Species) == (dab < opts.CompatThreshold), "C08: the second organism joins the first one's species iff their distance is below the threshold")
	dca, dcb := c.compatFast(a, opts), c.compatFast(b, opts)
	if ob.Species != oa.Species {
		vAssert(vImplies(vAnd(dca < opts.CompatThreshold, dca < dcb), oc.Species == oa.Species), "C08: the third organism joins the strictly closer compatible species")
		vAssert(vImplies(vAnd(dcb < opts.CompatThreshold, dcb < dca), oc.Species == ob.Species), "C08: the third organism joins the strictly closer compatible species")
		vAssert(vImplies(vAnd(dca >= opts.CompatThreshold, dcb >= opts.CompatThreshold), oc.Species != oa.Species && oc.Species != ob.Species), "C08: the third organism founds a species when both are too far")
	}
	vReach("end")
}

// the representative of a species is its first organism AT THE TIME an organism is speciated: between two speciation
// passes the library re-orders a species' members by fitness (the sort at the start of every epoch), and whatever was
// first before no longer matters
func VC08_RepresentativeAfterSort() {
	pop := newPopulation()
	opts := c07Opts()
	opts.CompatThreshold = vFloat("CompatThreshold")
	vAssume(vAnd(opts.CompatThreshold > 0, opts.CompatThreshold <= 100))
	if vChoice("method", 2) == 0 {
		opts.GenCompatMethod = neat.GenomeCompatibilityMethodLinear
	} else {
		opts.GenCompatMethod = neat.GenomeCompatibilityMethodFast
	}
	a, b, c := c07Genome("a", 1), c07Genome("b", 1), c07Genome("c", 1)
	oa, ob, oc := &Organism{Genotype: a}, &Organism{Genotype: b}, &Organism{Genotype: c}
	err := pop.speciate(&hCtx{opts: opts}, []*Organism{oa, ob})
	vAssert(err == nil, "C08: speciation with the real distance succeeds")
	if ob.Species != oa.Species || oa.Species == nil {
		return
	}
	sp := oa.Species
	fa, fb := vFloat("fitness.a"), vFloat("fitness.b")
	vAssume(vAnd(vAnd(fa >= 0, fa <= 100), vAnd(fb >= 0, fb <= 100)))
	oa.Fitness, ob.Fitness = fa, fb
	sort.Sort(sort.Reverse(sp.Organisms)) // what adjustFitness does at the start of an epoch
	if len(sp.Organisms) != 2 {
		return
	}
	rep := sp.Organisms[0]
	err = pop.speciate(&hCtx{opts: opts}, []*Organism{oc})
	vAssert(err == nil, "C08: the later speciation pass succeeds")
	d := c.compatFast(rep.Genotype, opts)
	vAssert((oc.Species == sp) == (d < opts.CompatThreshold), "C08: an organism joins a species iff it is closer than the threshold to the species' CURRENT first organism")
	vReach("end")
}
