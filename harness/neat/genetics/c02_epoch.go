package genetics

import (
	"github.com/yaricom/goNEAT/v4/neat"
)

// C02: an epoch conserves the population size and keeps species a partition.
// K4: purgeOldGeneration + purgeOrAgeSpecies + finalizeReproduction from an arbitrary consistent membership.
// K5: the whole SequentialPopulationEpochExecutor.NextEpoch on a small population with the genome operators,
//     the distance function and the fraction-carrying count replaced by contract stubs (C01/C04/C05, C07/C08, C09).

var c02Quota struct {
	calls, species, popSize, sum int
}

// c02CountStub: arbitrary quotas whose total is N or N-1 (what C09 kernel c shows countOffspring delivers)
func c02CountStub(s *Species, skim float64) (int, float64) {
	q := vInt("quota (countOffspring contract)")
	vAssume(vAnd(q >= 0, q <= c02Quota.popSize))
	c02Quota.calls++
	c02Quota.sum += q
	if c02Quota.calls == c02Quota.species {
		vAssume(vOr(c02Quota.sum == c02Quota.popSize, c02Quota.sum == c02Quota.popSize-1))
	}
	return q, skim
}

type popShot struct {
	orgs    []*Organism
	species []*Species
	ids     []int
	ages    []int
	novel   []bool
	last    int
}

func shoot(p *Population) *popShot {
	s := &popShot{orgs: append([]*Organism{}, p.Organisms...), species: append([]*Species{}, p.Species...), last: p.LastSpecies}
	for _, sp := range p.Species {
		s.ids = append(s.ids, sp.Id)
		s.ages = append(s.ages, sp.Age)
		s.novel = append(s.novel, sp.IsNovel)
	}
	return s
}

// postEpoch asserts the statement's post-condition against the pre-epoch snapshot
func postEpoch(p *Population, before *popShot, popSize int, tag string) {
	vAssert(len(p.Organisms) == popSize, tag+": exactly the configured population size of organisms")
	fresh := true
	for _, o := range p.Organisms {
		for _, old := range before.orgs {
			fresh = fresh && o != old
		}
	}
	vAssert(fresh, tag+": no organism of the previous generation remains")
	part := true
	for _, o := range p.Organisms {
		cnt := 0
		for _, sp := range p.Species {
			for _, m := range sp.Organisms {
				if m == o {
					cnt++
					part = part && o.Species == sp
				}
			}
		}
		part = part && cnt == 1
	}
	vAssert(part, tag+": every organism belongs to exactly one species, which lists it")
	total := 0
	nonEmpty := true
	for _, sp := range p.Species {
		total += len(sp.Organisms)
		nonEmpty = nonEmpty && len(sp.Organisms) > 0
		for _, m := range sp.Organisms {
			listed := false
			for _, o := range p.Organisms {
				if o == m {
					listed = true
				}
			}
			part = part && listed
		}
	}
	vAssert(nonEmpty, tag+": no species is empty")
	vAssert(total == len(p.Organisms) && part, tag+": species list exactly the population's organisms")
	uniq := true
	for i, a := range p.Species {
		for _, b := range p.Species[i+1:] {
			uniq = vAnd(uniq, a.Id != b.Id)
		}
	}
	vAssert(uniq, tag+": species ids are unique")
	gids := true
	for i, a := range p.Organisms {
		for _, b := range p.Organisms[i+1:] {
			gids = vAnd(gids, a.Genotype.Id != b.Genotype.Id)
		}
	}
	vAssert(gids, tag+": organisms' genome ids are unique")
	for _, sp := range p.Species {
		old := -1
		for i, b := range before.species {
			if b == sp {
				old = i
			}
		}
		if old >= 0 {
			vAssert(sp.Id == before.ids[old], tag+": a surviving species keeps its id")
			if before.novel[old] {
				vAssert(sp.Age == before.ages[old], tag+": a species created at construction is not aged by the first turnover")
			} else {
				vAssert(sp.Age == before.ages[old]+1, tag+": a surviving species is exactly one generation older")
			}
		} else {
			vAssert(sp.Age == 1, tag+": a species founded during the turnover starts at age one")
			vAssert(sp.Id > before.last, tag+": a species founded during the turnover gets an id never used before")
		}
		vAssert(!sp.IsNovel, tag+": no species stays flagged as novel")
	}
}

// K4: arbitrary consistent membership after reproduction+speciation
func vc02Finalize(maxSpecies int) {
	ns := 1 + vChoice("species", maxSpecies)
	pop := newPopulation()
	var babies []*Organism
	gid := 0
	for i := 0; i < ns; i++ {
		sp := NewSpecies(i + 1)
		sp.Age = vInt("species.age")
		vAssume(vAnd(sp.Age >= 1, sp.Age <= 40))
		sp.IsNovel = vBool("species.novel")
		vAssume(vImplies(sp.IsNovel, sp.Age == 1))
		olds := vChoice("old members", 3)
		news := vChoice("new members", 3)
		for k := 0; k < olds; k++ {
			o := &Organism{Genotype: tinyGenome(gid), Species: sp}
			gid++
			sp.Organisms = append(sp.Organisms, o)
			pop.Organisms = append(pop.Organisms, o)
		}
		for k := 0; k < news; k++ {
			o := &Organism{Genotype: tinyGenome(gid), Species: sp}
			gid++
			sp.Organisms = append(sp.Organisms, o)
			babies = append(babies, o)
		}
		pop.Species = append(pop.Species, sp)
	}
	pop.LastSpecies = ns
	pop.innovations = append(pop.innovations, Innovation{InnovationNum: 5})
	vAssume(len(babies) > 0)
	before := shoot(pop)
	ex := &SequentialPopulationEpochExecutor{bestSpeciesId: 1 + vChoice("best species", ns), bestSpeciesReproduced: true}
	err := ex.finalizeReproduction(&hCtx{opts: &neat.Options{}}, pop)
	vAssert(err == nil, "C02: finalizing the turnover succeeds when the best species reproduced")
	postEpoch(pop, before, len(babies), "C02")
	vAssert(len(pop.Innovations()) == 0, "C02/C03: the record of innovations is forgotten when the generation ends")
	vAssert(pop.LastSpecies >= before.last, "C02: the species id counter never goes back (ids are never reused)")
	// genome ids are 0..n-1
	for i, o := range pop.Organisms {
		vAssert(o.Genotype.Id == i, "C02: genome ids are renumbered 0..n-1")
	}
	vReach("end")
}

// K5: the whole NextEpoch. Fitness values, ages and option values are concrete representatives here (their
// symbolic treatment is kernels C09 a-e); symbolic: the quotas (who reproduces how often), all distances
// (how the offspring speciate), the novel flags and every random draw.
func vc02Epoch(shape int, fitnessPattern int, parallel bool) {
	sizes := speciesShapes(shape)
	pop := newPopulation()
	id := 0
	for si, k := range sizes {
		sp := NewSpecies(si + 1)
		sp.Age = 2 + 9*si // one young, one older than ten generations
		sp.AgeOfLastImprovement = 1
		sp.IsNovel = vBool("species.novel")
		for j := 0; j < k; j++ {
			var f float64
			switch fitnessPattern {
			case 0:
				f = float64(10 - id) // distinct
			case 1:
				f = 0 // all zero
			case 2:
				f = 4 // constant
			}
			org := &Organism{Fitness: f, Genotype: tinyGenome(id), Species: sp, Generation: 1}
			id++
			sp.Organisms = append(sp.Organisms, org)
			pop.Organisms = append(pop.Organisms, org)
		}
		pop.Species = append(pop.Species, sp)
	}
	pop.LastSpecies = len(sizes)
	n := len(pop.Organisms)
	opts := &neat.Options{PopSize: n, DropOffAge: 15, AgeSignificance: 1, SurvivalThresh: 0.4, MutateOnlyProb: 1}
	opts.CompatThreshold = vFloat("CompatThreshold")
	vAssume(vAnd(opts.CompatThreshold > 0, opts.CompatThreshold <= 100))
	c02Quota.calls, c02Quota.species, c02Quota.popSize, c02Quota.sum = 0, len(sizes), n, 0
	c08Log = nil
	before := shoot(pop)
	var err error
	if parallel {
		// the parallel executor: same phases, reproduction fanned out over one goroutine per species; the babies travel
		// through the wire format (engine: pass-through stubs, natively the real encoder)
		c16Streams, c16Progeny = nil, nil
		vParallelSection(true)
		err = (&ParallelPopulationEpochExecutor{}).NextEpoch(&hCtx{opts: opts}, 1, pop)
		vParallelSection(false)
	} else {
		err = (&SequentialPopulationEpochExecutor{}).NextEpoch(&hCtx{opts: opts}, 1, pop)
	}
	vAssert(err == nil, "C02: turning over an epoch succeeds without error")
	if err == nil {
		postEpoch(pop, before, n, "C02 epoch")
	}
	vReach("end")
}

// the quota redistribution phases (stolen babies, delta coding) are not allowed to touch species ages or ids:
// ages change only in the final ageing step, by exactly one
func vc02Redistribute(maxSpecies, popSizeBase int) {
	// an odd size, and one large enough for the stolen-babies blocks (N/5, N/5, N/10) to exceed one
	popSize := []int{popSizeBase, 2*popSizeBase - 1}[vChoice("PopSize", 2)]
	ns := 1 + vChoice("species", maxSpecies)
	ss, opts := sortedSpeciesWithQuotas(ns, popSize)
	ages, ids := make([]int, ns), make([]int, ns)
	for i, sp := range ss {
		ages[i], ids[i] = sp.Age, sp.Id
	}
	pop := newPopulation()
	pop.LastSpecies = ns
	if vChoice("deltaCoding", 2) == 1 {
		pop.deltaCoding(ss, opts)
	} else {
		pop.giveBabiesToTheBest(ss, opts)
	}
	for i, sp := range ss {
		vAssert(sp.Age == ages[i], "C02: redistributing offspring quotas does not change a species' age")
		vAssert(sp.Id == ids[i], "C02: redistributing offspring quotas does not change a species' id")
	}
	vAssert(pop.LastSpecies == ns, "C02: redistributing offspring quotas does not touch the species id counter")
	total := 0
	for _, sp := range ss {
		total += sp.ExpectedOffspring
	}
	vAssert(total == popSize, "C02: the offspring quotas still total the configured population size after redistribution")
	vReach("end")
}

func VC02_Redistribute_Quick() { vc02Redistribute(3, 11) }
func VC02_Finalize_Quick()     { vc02Finalize(2) }
func VC02_Finalize_Thorough()  { vc02Finalize(3) }
func VC02_Epoch_Quick()        { vc02Epoch(vChoice("shape", 2), vChoice("fitness pattern", 3), false) }
func VC02_Epoch_Thorough()     { vc02Epoch(2+vChoice("shape", 2), vChoice("fitness pattern", 3), false) }

// the same kernel under the parallel executor
func VC02_EpochParallel_Quick() { vc02Epoch(vChoice("shape", 2), vChoice("fitness pattern", 3), true) }
