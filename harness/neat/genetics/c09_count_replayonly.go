package genetics

// native counterpart of the engine's redirect of Species.countOffspring (the original is renamed by the replay overlay)
func (s *Species) countOffspring(skim float64) (int, float64) { return c09CountStub(s, skim) }
