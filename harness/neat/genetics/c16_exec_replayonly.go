package genetics

import "context"

// native counterpart of the engine's redirect (the original is renamed by the replay overlay)
func (p *Population) speciate(ctx context.Context, babies []*Organism) error {
	return c16Speciate(p, ctx, babies)
}
