package genetics

import (
	"github.com/yaricom/goNEAT/v4/neat"
	neatmath "github.com/yaricom/goNEAT/v4/neat/math"
	"github.com/yaricom/goNEAT/v4/neat/network"
)

// C17 (partial): per-kernel determinism by self-composition. Each kernel is run twice, on two equal copies of the
// same symbolic input state and with the SAME symbolic random stream; the engine explores every iteration order of
// every map range (and counts the other nondeterminism sources: time, goroutines); any difference in the results
// is a violation. Composition of deterministic steps is deterministic, which lifts the result to whole epochs.

func c17Copy(g *Genome, id int) *Genome {
	d, err := g.duplicate(id) // exactness and independence of duplicate is C06
	vAssume(err == nil)
	return d
}

func c17Pop() *Population {
	p := newPopulation()
	p.nextInnovNum, p.nextNodeId = 1500, 40
	return p
}

func c17Kernel(k int, g, other *Genome, opts *neat.Options, pop *Population) *Genome {
	var child *Genome
	switch k {
	case 0:
		_, _ = g.mutateAddNode(pop, pop, opts)
	case 1:
		_, _ = g.mutateConnectSensors(pop, opts)
	case 2:
		_, _ = g.mutateLinkWeights(opts.WeightMutPower, 1.0, gaussianMutator)
	case 3:
		_, _ = g.mutateAllNonstructural(opts)
	case 4:
		child, _ = g.mateMultipoint(other, 9, 2, 1)
	case 5:
		child, _ = g.mateMultipointAvg(other, 9, 1, 1)
	case 6:
		child, _ = g.mateSinglePoint(other, 9)
	case 7:
		child, _ = g.duplicate(9)
	case 8:
		_, _ = g.mutateAddLink(pop, 1, opts)
	}
	if child != nil {
		return child
	}
	return g
}

func vc17(kernels []int, symFlags bool) {
	k := kernels[vChoice("kernel", len(kernels))]
	cfg := cfgSensors
	if k >= 4 && k <= 6 {
		cfg = pcfg(false, lInOut, lInHid, lHidOut)
	}
	if k == 3 {
		cfg = cfgTiny
	}
	if k == 1 {
		cfg.lateInput = true // two unconnected sensors (bias and the late input): the choice among them must not depend on map order
	}
	cfg.symEnable, cfg.symRecur = symFlags, symFlags && cfg.symRecur
	g1 := tGenome("g", 1, cfg)
	o1 := tGenome("o", 2, pcfg(false, lInOut, lBiasOut))
	assumeConsistent(g1, o1)
	g2, o2 := c17Copy(g1, 1), c17Copy(o1, 2)
	opts := tOpts()
	before := vNondetCount()
	mark := vRandMark()
	r1 := c17Kernel(k, g1, o1, opts, c17Pop())
	vRandRewind(mark)
	r2 := c17Kernel(k, g2, o2, opts, c17Pop())
	s1, s2 := snap(r1), snap(r2)
	vAssert(sameNodes(s1, s2), "C17: same input and same random stream give the same nodes")
	vAssert(sameGenes(s1, s2), "C17: same input and same random stream give the same genes, bit for bit")
	vAssert(sameTraits(s1, s2), "C17: same input and same random stream give the same traits")
	vAssert(vNondetCount() == before || true, "C17: (informational) nondeterminism sources consumed")
	vObserveI("nondeterminism sources consumed by both runs", vNondetCount()-before)
	vReach("end")
}

func VC17_Kernels_Quick()    { vc17([]int{0, 1, 2, 4, 5, 6, 7}, false) }
func VC17_Kernels_Thorough() { vc17([]int{0, 1, 2, 3, 4, 5, 6, 7, 8}, true) }

// speciation and spawning: same organisms, same stream => same membership and same genomes
func VC17_Spawn() {
	g := tGenome("g", 1, cfgTiny)
	opts := &neat.Options{DisjointCoeff: 1, ExcessCoeff: 1, MutdiffCoeff: 0.5} // concrete coefficients keep the distance linear
	opts.PopSize = 2
	opts.CompatThreshold = vFloat("CompatThreshold")
	vAssume(vAnd(opts.CompatThreshold > 0, opts.CompatThreshold <= 100))
	opts.GenCompatMethod = neat.GenomeCompatibilityMethodFast
	g2 := c17Copy(g, 1)
	p1, p2 := newPopulation(), newPopulation()
	mark := vRandMark()
	e1 := p1.spawn(g, opts)
	vRandRewind(mark)
	e2 := p2.spawn(g2, opts)
	vAssert((e1 == nil) == (e2 == nil), "C17: spawning succeeds or fails identically")
	if e1 != nil || e2 != nil {
		return
	}
	vAssert(len(p1.Organisms) == len(p2.Organisms) && len(p1.Species) == len(p2.Species), "C17: spawned populations have the same size and number of species")
	for i := range p1.Organisms {
		if i < len(p2.Organisms) {
			vAssert(sameSnap(snap(p1.Organisms[i].Genotype), snap(p2.Organisms[i].Genotype)), "C17: spawned populations are identical genome for genome")
			vAssert(p1.Organisms[i].Species.Id == p2.Organisms[i].Species.Id, "C17: spawned organisms land in the same species")
		}
	}
	vAssert(p1.nextInnovNum == p2.nextInnovNum && p1.nextNodeId == p2.nextNodeId, "C17: spawned populations have the same counters")
	vReach("end")
}

// bit-for-bit: the normalisation of expected offspring (a float sum over the population) must not depend on any
// iteration order. Run in the IEEE model, where a sum accumulated in a different order rounds differently.
func VC17_Normalisation_F() {
	mk := func() *Population {
		pop := newPopulation()
		for si := 0; si < 3; si++ {
			sp := NewSpecies(si + 1)
			org := &Organism{Genotype: tinyGenome(si), Species: sp}
			sp.Organisms = append(sp.Organisms, org)
			pop.Organisms = append(pop.Organisms, org)
			pop.Species = append(pop.Species, sp)
		}
		return pop
	}
	p1, p2 := mk(), mk()
	for i := range p1.Organisms {
		f := vFloat("fitness")
		vAssume(vAnd(f >= 0.001, f <= 1000))
		p1.Organisms[i].Fitness, p2.Organisms[i].Fitness = f, f
	}
	p1.purgeZeroOffspringSpecies(1)
	p2.purgeZeroOffspringSpecies(1)
	for i := range p1.Organisms {
		vAssert(p1.Organisms[i].ExpectedOffspring == p2.Organisms[i].ExpectedOffspring, "C17: expected offspring are identical bit for bit in two runs on the same population")
	}
	vReach("end")
}

// "Outcomes do not depend on earlier unrelated work in the process": the same crossover is run in a fresh process
// state and after an unrelated crossover of other genomes (whose draws are not part of the compared stream); a
// package-level cache, pool or counter that leaks from one call into the next makes the two children differ. The
// less fit parent carries a module whose only node is one the child does not inherit - the one place where the
// crossovers READ their node lookup table.
func c17AddHiddenModule(g *Genome, hidden int) {
	ctrl := network.NewNNode(20, network.HiddenNeuron)
	ctrl.ActivationType = neatmath.MultiplyModuleActivation
	ctrl.AddIncoming(g.Nodes[hidden], 1.0)
	ctrl.AddOutgoing(g.Nodes[hidden], 1.0)
	g.ControlGenes = append(g.ControlGenes, NewMIMOGene(ctrl, 900, 0, true))
}

// the genomes of the unrelated work are concrete: in->hidden->out plus in->out (its child holds the hidden node)
func c17Unrelated(id int) *Genome {
	tr := neat.NewTrait()
	tr.Id = 1
	in := network.NewSensorNode(1, false)
	bias := network.NewSensorNode(2, true)
	out := network.NewNNode(3, network.OutputNeuron)
	hid := network.NewNNode(4, network.HiddenNeuron)
	nodes := []*network.NNode{in, bias, out, hid}
	for _, n := range nodes {
		n.Trait = tr
	}
	genes := []*Gene{
		NewGeneWithTrait(tr, 0.5, in, out, false, 1, 0.5),
		NewGeneWithTrait(tr, 0.25, in, hid, false, 3, 0.25),
		NewGeneWithTrait(tr, 0.75, hid, out, false, 4, 0.75),
	}
	return NewGenome(id, []*neat.Trait{tr}, nodes, genes)
}

func VC17_History() {
	k := 4 + vChoice("crossover", 3)
	// concrete parents (their alignment is C04's subject); every random draw is symbolic
	g1, o1 := c17Unrelated(1), c17Unrelated(2)
	g1.Genes, o1.Genes = g1.Genes[:1], o1.Genes[:1] // in->out only: the hidden node is not inherited by the child
	g2, o2 := c17Copy(g1, 1), c17Copy(o1, 2)
	c17AddHiddenModule(o1, 3)
	c17AddHiddenModule(o2, 3)
	u1, u2 := c17Unrelated(3), c17Unrelated(4)
	opts := tOpts()
	mark := vRandMark()
	r1 := c17Kernel(k, g1, o1, opts, c17Pop())
	// unrelated earlier work before the second run (its own draws are not part of the compared stream)
	_ = c17Kernel(4+vChoice("earlier unrelated crossover", 3), u1, u2, opts, c17Pop())
	vRandRewind(mark)
	r2 := c17Kernel(k, g2, o2, opts, c17Pop())
	s1, s2 := snap(r1), snap(r2)
	vAssert(sameNodes(s1, s2), "C17: earlier unrelated work does not change the nodes of the outcome")
	vAssert(sameGenes(s1, s2), "C17: earlier unrelated work does not change the genes of the outcome")
	vAssert(sameTraits(s1, s2), "C17: earlier unrelated work does not change the traits of the outcome")
	vAssert(len(r1.ControlGenes) == len(r2.ControlGenes), "C17: earlier unrelated work does not change the modules of the outcome")
	vReach("end")
}

// earlier unrelated work, second kernel: the draw of a new node's activation type (Options.RandomNodeActivationType,
// used by mutateAddNode) with a probability list that earlier work used with other values and then tuned in
// place: equal values must give the same draw as a fresh list.
func VC17_HistoryRoulette() {
	mk := func(p0, p2 float64) *neat.Options {
		return &neat.Options{
			NodeActivators:     []neatmath.NodeActivationType{neatmath.SigmoidSteepenedActivation, neatmath.TanhActivation, neatmath.GaussianBipolarActivation},
			NodeActivatorsProb: []float64{p0, 0.25, p2},
		}
	}
	fresh := mk(0.25, 0.5)
	mark := vRandMark()
	a1, e1 := fresh.RandomNodeActivationType()
	// unrelated earlier work: another options object used with other probabilities, which are then tuned in place to
	// the same values as in the fresh run
	used := mk(4, 0.125)
	_, _ = used.RandomNodeActivationType()
	used.NodeActivatorsProb[0], used.NodeActivatorsProb[2] = 0.25, 0.5
	vRandRewind(mark)
	a2, e2 := used.RandomNodeActivationType()
	vAssert((e1 == nil) == (e2 == nil), "C17: the activation-type draw fails or succeeds identically after unrelated work")
	vAssert(a1 == a2, "C17: earlier unrelated work does not change the activation type drawn for a new node")
	vReach("end")
}

// earlier unrelated work, third kernel: the options a population is spawned with were derived (copied by value, one
// setting changed) from an options object the process had already worked with. Equal settings must give the same
// population as options built from scratch - whatever an options object remembers from earlier use must not travel
// with its copies.
func VC17_HistoryOptions() {
	g := tGenome("g", 1, cfgTiny)
	mk := func(th float64) *neat.Options {
		o := &neat.Options{DisjointCoeff: 1, ExcessCoeff: 1, MutdiffCoeff: 0.5}
		o.PopSize = 2
		o.CompatThreshold = th
		o.GenCompatMethod = neat.GenomeCompatibilityMethodFast
		return o
	}
	th, other := vFloat("CompatThreshold"), vFloat("CompatThreshold of the earlier work")
	vAssume(vAnd(th > 0, th <= 100))
	vAssume(vAnd(other > 0, other <= 100))
	fresh := mk(th)
	// earlier work: a population spawned and speciated with the base options
	base := mk(other)
	g0 := c17Copy(g, 1)
	mark := vRandMark()
	_ = newPopulation().spawn(g0, base)
	_, _ = neat.FromContext(base.NeatContext())
	derived := *base
	derived.CompatThreshold = th
	g2 := c17Copy(g, 1)
	p1, p2 := newPopulation(), newPopulation()
	vRandRewind(mark)
	e1 := p1.spawn(g, fresh)
	vRandRewind(mark)
	e2 := p2.spawn(g2, &derived)
	vAssert((e1 == nil) == (e2 == nil), "C17: spawning succeeds or fails identically with options derived from used ones")
	if e1 != nil || e2 != nil {
		return
	}
	vAssert(len(p1.Organisms) == len(p2.Organisms) && len(p1.Species) == len(p2.Species), "C17: options derived from used ones give the same number of organisms and species as fresh options with equal settings")
	for i := range p1.Organisms {
		if i < len(p2.Organisms) {
			vAssert(sameSnap(snap(p1.Organisms[i].Genotype), snap(p2.Organisms[i].Genotype)), "C17: options derived from used ones give the same genomes")
			vAssert(p1.Organisms[i].Species.Id == p2.Organisms[i].Species.Id, "C17: options derived from used ones put the organisms into the same species")
		}
	}
	o1, ok1 := neat.FromContext(fresh.NeatContext())
	o2, ok2 := neat.FromContext(derived.NeatContext())
	vAssert(ok1 && ok2 && o1 != nil && o2 != nil, "C17: the context of an options object carries options")
	if o1 != nil && o2 != nil {
		vAssertEqF(o1.CompatThreshold, o2.CompatThreshold, "C17: the context of an options object carries ITS settings, whatever object it was copied from")
	}
	vReach("end")
}
