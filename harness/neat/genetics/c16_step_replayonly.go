package genetics

// native counterparts of the engine's redirects (the originals are renamed by the replay overlay)
func (p *Population) NextInnovationNumber() int64 { return c16NextInnovationNumber(p) }
func (p *Population) NextNodeId() int             { return c16NextNodeId(p) }
