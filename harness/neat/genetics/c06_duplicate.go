package genetics

import (
	"github.com/yaricom/goNEAT/v4/neat"
	neatmath "github.com/yaricom/goNEAT/v4/neat/math"
	"github.com/yaricom/goNEAT/v4/neat/network"
)

type moduleSnap struct {
	innov   int64
	mut     float64
	enabled bool
	ctrlId  int
	traitId int // id of the control node's trait, 0 for none
	atype   neatmath.NodeActivationType
	inIds   []int
	outIds  []int
	inW     []float64
	outW    []float64
}

func snapModules(g *Genome) []moduleSnap {
	var out []moduleSnap
	for _, cg := range g.ControlGenes {
		m := moduleSnap{innov: cg.InnovationNum, mut: cg.MutationNum, enabled: cg.IsEnabled, ctrlId: cg.ControlNode.Id, atype: cg.ControlNode.ActivationType}
		if cg.ControlNode.Trait != nil {
			m.traitId = cg.ControlNode.Trait.Id
		}
		for _, l := range cg.ControlNode.Incoming {
			m.inIds = append(m.inIds, l.InNode.Id)
			m.inW = append(m.inW, l.ConnectionWeight)
		}
		for _, l := range cg.ControlNode.Outgoing {
			m.outIds = append(m.outIds, l.OutNode.Id)
			m.outW = append(m.outW, l.ConnectionWeight)
		}
		out = append(out, m)
	}
	return out
}

func sameModules(a, b []moduleSnap) bool {
	if len(a) != len(b) {
		return false
	}
	r := true
	for i := range a {
		x, y := a[i], b[i]
		if x.ctrlId != y.ctrlId || x.traitId != y.traitId || x.atype != y.atype || len(x.inIds) != len(y.inIds) || len(x.outIds) != len(y.outIds) {
			return false
		}
		r = vAnd(r, vAnd(x.innov == y.innov, vAnd(x.mut == y.mut, x.enabled == y.enabled)))
		for k := range x.inIds {
			if x.inIds[k] != y.inIds[k] {
				return false
			}
			r = vAnd(r, x.inW[k] == y.inW[k])
		}
		for k := range x.outIds {
			if x.outIds[k] != y.outIds[k] {
				return false
			}
			r = vAnd(r, x.outW[k] == y.outW[k])
		}
	}
	return r
}

// moduleLinksOwn: the copy's control nodes are wired to the copy's own nodes.
func moduleLinksOwn(g *Genome) bool {
	ok := true
	for _, cg := range g.ControlGenes {
		if t := cg.ControlNode.Trait; t != nil {
			own := false
			for _, gt := range g.Traits {
				own = own || gt == t
			}
			ok = ok && own
		}
		for _, l := range cg.ControlNode.Incoming {
			ok = ok && g.NodeWithId(l.InNode.Id) == l.InNode && l.OutNode == cg.ControlNode
		}
		for _, l := range cg.ControlNode.Outgoing {
			ok = ok && g.NodeWithId(l.OutNode.Id) == l.OutNode && l.InNode == cg.ControlNode
		}
	}
	return ok
}

func c06AddModule(g *Genome) {
	ctrl := network.NewNNode(20, network.HiddenNeuron)
	ctrl.ActivationType = neatmath.MultiplyModuleActivation
	w1 := vFloat("module.w")
	vAssume(vAnd(w1 >= -tMaxW, w1 <= tMaxW))
	ctrl.AddIncoming(g.Nodes[0], w1)
	if vChoice("module.twoInputs", 2) == 1 {
		ctrl.AddIncoming(g.Nodes[1], 1.0)
	}
	ctrl.AddOutgoing(g.Nodes[2], 1.0)
	if len(g.Traits) > 0 && vChoice("module.controlNodeTrait", 2) == 1 {
		ctrl.Trait = g.Traits[0] // a control node may carry one of the genome's traits like any other node
	}
	innov := vInt("module.innov")
	vAssume(vAnd(innov > 0, innov <= tMaxInnov))
	m := vFloat("module.mut")
	vAssume(vAnd(m >= -tMaxW, m <= tMaxW))
	g.ControlGenes = append(g.ControlGenes, NewMIMOGene(ctrl, int64(innov), m, vBool("module.enabled")))
}

// a second module with other endpoints and weights (state must not leak from one module's copy into the next)
func c06AddSecondModule(g *Genome) {
	ctrl := network.NewNNode(21, network.HiddenNeuron)
	ctrl.ActivationType = neatmath.MaxModuleActivation
	w := vFloat("module2.w")
	vAssume(vAnd(w >= -tMaxW, w <= tMaxW))
	ctrl.AddIncoming(g.Nodes[1], w)
	ctrl.AddOutgoing(g.Nodes[2], 0.5)
	innov := vInt("module2.innov")
	vAssume(vAnd(innov > 0, innov <= tMaxInnov))
	g.ControlGenes = append(g.ControlGenes, NewMIMOGene(ctrl, int64(innov), 0.25, vBool("module2.enabled")))
}

func c06Mutate(g *Genome, k int) {
	opts := tOpts()
	switch k {
	case 0:
		_, _ = g.mutateLinkWeights(opts.WeightMutPower, 1.0, gaussianMutator)
	case 1:
		_, _ = g.mutateToggleEnable(1)
	case 2:
		_, _ = g.mutateGeneReEnable()
	case 3:
		_, _ = g.mutateLinkTrait(1)
	case 4:
		_, _ = g.mutateNodeTrait(1)
	case 5:
		_, _ = g.mutateRandomTrait(opts)
	case 6:
		pop := newPopulation()
		pop.nextInnovNum = tMaxInnov
		pop.nextNodeId = 30
		_, _ = g.mutateAddNode(pop, pop, opts)
	case 7:
		pop := newPopulation()
		pop.nextInnovNum = tMaxInnov
		pop.nextNodeId = 30
		_, _ = g.mutateAddLink(pop, 1, opts)
	}
}

func vc06(c tmplCfg, module bool, mutations int) {
	g := tGenome("g", 7, c)
	if module {
		c06AddModule(g)
		if mutations == 0 && vChoice("second module", 2) == 1 {
			c06AddSecondModule(g)
		}
	}
	s0, m0 := snap(g), snapModules(g)
	d, err := g.duplicate(9)
	vAssert(err == nil, "duplicate returns no error")
	if err != nil {
		return
	}
	vAssert(d.Id == 9, "the copy carries the requested id")
	s1 := snap(d)
	vAssert(sameNodes(s0, s1), "copy has the same nodes (id, role, activation type, trait)")
	vAssert(sameTraits(s0, s1), "copy has the same traits")
	vAssert(sameGenes(s0, s1), "copy has the same genes (endpoints, weight, innovation and mutation number, recurrence and enabled flags, trait)")
	vAssert(sameModules(m0, snapModules(d)), "copy has the same modules")
	vAssert(moduleLinksOwn(d), "module links of the copy are wired to the copy's own nodes, and a control node's trait is the copy's own")
	wfCheck(d, "copy")
	disjoint := vDisjoint(g, d)
	if mutations > 0 {
		k := vChoice("mutation", mutations)
		if vChoice("mutate.original", 2) == 0 {
			c06Mutate(d, k)
			vAssert(sameSnap(snap(g), s0), "mutating the copy leaves the original unchanged")
			vAssert(sameModules(snapModules(g), m0), "mutating the copy leaves the original's modules unchanged")
		} else {
			c06Mutate(g, k)
			vAssert(sameSnap(snap(d), s1), "mutating the original leaves the copy unchanged")
		}
	}
	vAssert(disjoint, "copy shares no mutable state with the original")
	vReach("end")
}

func VC06_Duplicate_Quick() {
	vc06(tmplCfg{outputs: 1, hidden: 1, genes: 2, traits: 2, nilTraits: true, params: 1, symRecur: true, symEnable: true}, false, 0)
}
// a trait with more parameters than the library's own default of eight: a copy has all of them
func VC06_DuplicateLongTrait() {
	vc06(tmplCfg{outputs: 1, hidden: 0, genes: 1, traits: 1, params: 9, symRecur: false, symEnable: true, fixedBase: true}, false, 0)
}
func VC06_DuplicateModule_Quick() {
	vc06(tmplCfg{outputs: 1, hidden: 0, genes: 1, traits: 1, params: 1, symRecur: true, symEnable: true, fixedBase: true}, true, 0)
}
func VC06_Independence_Quick() {
	vc06(tmplCfg{outputs: 1, hidden: 0, genes: 2, traits: 1, params: 1, symRecur: false, symEnable: true, fixedBase: true}, false, 8)
}
func VC06_Duplicate_Thorough() {
	vc06(tmplCfg{outputs: 2, hidden: 1, genes: 3, traits: 2, nilTraits: true, params: 2, symRecur: true, symEnable: true}, false, 0)
}
func VC06_Independence_Thorough() {
	vc06(tmplCfg{outputs: 1, hidden: 1, genes: 3, traits: 2, params: 1, symRecur: true, symEnable: true, fixedBase: true}, true, 8)
}

// spawn: every organism of a freshly spawned population has exactly the start genome's topology and enabled flags and
// differs from it only in connection weights and the mutation numbers that mirror them
func vc06Spawn(c tmplCfg, module bool, popSize int) {
	g := tGenome("g", 1, c)
	if module {
		c06AddModule(g)
	}
	s0, m0 := snap(g), snapModules(g)
	opts := &neat.Options{PopSize: popSize, DisjointCoeff: 1, ExcessCoeff: 1, MutdiffCoeff: 0.4, CompatThreshold: 3, GenCompatMethod: neat.GenomeCompatibilityMethodFast}
	pop := newPopulation()
	err := pop.spawn(g, opts)
	vAssert(err == nil, "C06 spawn: spawning succeeds")
	if err != nil {
		return
	}
	vAssert(len(pop.Organisms) == popSize, "C06 spawn: the population has the configured size")
	for _, o := range pop.Organisms {
		s := snap(o.Genotype)
		vAssert(sameNodes(s, s0) && sameTraits(s, s0), "C06 spawn: nodes and traits equal the start genome's")
		ok := len(s.genes) == len(s0.genes)
		if ok {
			for i := range s.genes {
				a, b := s.genes[i], s0.genes[i]
				same := a.in == b.in && a.out == b.out && a.hasTrait == b.hasTrait && a.traitId == b.traitId
				ok = vAnd(ok, vAnd(same, vAnd(a.innov == b.innov, vAnd(a.enabled == b.enabled, a.recur == b.recur))))
				vAssert(a.mut == a.weight, "C06 spawn: the mutation number mirrors the connection weight")
			}
		}
		vAssert(ok, "C06 spawn: topology, innovation numbers, enabled and recurrence flags equal the start genome's")
		vAssert(sameModules(snapModules(o.Genotype), m0), "C06 spawn: modules equal the start genome's")
		vAssert(vDisjoint(o.Genotype, g), "C06 spawn: organisms share no mutable state with the start genome")
		wfCheck(o.Genotype, "spawned organism")
		genesisOK(o.Genotype, "spawned organism")
	}
	vAssert(sameSnap(snap(g), s0), "C06 spawn: the start genome is left unchanged")
	// C03: counters are at least every number / id of the start genome (incl. control genes)
	top := true
	for _, gn := range g.Genes {
		top = vAnd(top, gn.InnovationNum <= pop.nextInnovNum)
	}
	for _, n := range g.Nodes {
		top = vAnd(top, n.Id <= int(pop.nextNodeId))
	}
	for _, cg := range g.ControlGenes {
		top = vAnd(top, vAnd(cg.InnovationNum <= pop.nextInnovNum, cg.ControlNode.Id <= int(pop.nextNodeId)))
	}
	vAssert(top, "C06 spawn: the population counters start at or above every number and id of the start genome")
	vReach("end")
}

func VC06_Spawn_Quick() {
	vc06Spawn(tmplCfg{outputs: 1, hidden: 1, genes: 3, traits: 1, params: 1, symRecur: true, symEnable: true,
		links: [][2]int{{0, 2}, {1, 3}, {3, 2}}}, false, 2)
}
func VC06_SpawnModule_Quick() {
	vc06Spawn(tmplCfg{outputs: 1, hidden: 0, genes: 2, traits: 1, params: 1, symEnable: true, fixedBase: true}, true, 1)
}
