package genetics

import (
	"github.com/yaricom/goNEAT/v4/neat"
	"github.com/yaricom/goNEAT/v4/neat/network"
)

// native counterparts of the engine's redirects for the whole-epoch kernel
func (s *Species) countOffspring(skim float64) (int, float64) { return c02CountStub(s, skim) }
func (g *Genome) mutateLinkWeights(power, rate float64, mutationType mutatorType) (bool, error) {
	return c10LinkWeights(g, power, rate, mutationType)
}
func (g *Genome) mutateAddLink(innovations InnovationsObserver, generation int, opts *neat.Options) (bool, error) {
	return c10AddLink(g, innovations, generation, opts)
}
func (g *Genome) mutateAddNode(innovations InnovationsObserver, ids network.NodeIdGenerator, opts *neat.Options) (bool, error) {
	return c10AddNode(g, innovations, ids, opts)
}
func (g *Genome) mutateConnectSensors(innovations InnovationsObserver, opts *neat.Options) (bool, error) {
	return c10ConnectSensors(g, innovations, opts)
}
func (g *Genome) mutateAllNonstructural(opts *neat.Options) (bool, error) {
	return c10AllNonstructural(g, opts)
}
func (g *Genome) mateMultipoint(og *Genome, id int, f1, f2 float64) (*Genome, error) {
	return c10Mate(g, og, id, f1, f2)
}
func (g *Genome) mateMultipointAvg(og *Genome, id int, f1, f2 float64) (*Genome, error) {
	return c10Mate(g, og, id, f1, f2)
}
func (g *Genome) mateSinglePoint(og *Genome, id int) (*Genome, error) {
	return c10MateSingle(g, og, id)
}
func (g *Genome) compatibility(og *Genome, opts *neat.Options) float64 { return c08Compat(g, og, opts) }
