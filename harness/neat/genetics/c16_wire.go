package genetics

import (
	"bufio"
	"bytes"
	"io"

	"github.com/yaricom/goNEAT/v4/neat/network"
)

// C16 / "well-formed genomes after the wire": the STRUCTURAL half of the wire format at gene level. The babies of the
// parallel executor travel as plain text; a connection gene is written by one Fprintf and read back by one Fscanf with
// the same verbs. Here the real writer (trait id 0 for no trait, node ids) and the real reader (trait and node lookup
// by id) run symbolically, joined by a stub channel that passes the formatted values through unchanged - exactness of
// the number formatting itself is C15 and stays assumed. Natively nothing is stubbed.

var c16Wire []interface{}

func c16Fprintf(w io.Writer, format string, a ...interface{}) (int, error) {
	c16Wire = append(c16Wire, a...)
	return 0, nil
}
func c16Fscanf(r io.Reader, format string, a ...interface{}) (int, error) {
	for i, p := range a {
		v := c16Wire[i]
		switch x := p.(type) {
		case *int:
			*x = v.(int)
		case *int64:
			*x = v.(int64)
		case *float64:
			*x = v.(float64)
		case *bool:
			*x = v.(bool)
		}
	}
	c16Wire = c16Wire[len(a):]
	return len(a), nil
}
func c16NewWriter(w io.Writer) *bufio.Writer { return new(bufio.Writer) }
func c16Flush(w *bufio.Writer) error         { return nil }

func VC16_WireGene() {
	c16Wire = nil
	// hidden->hidden (a self-recurrent link), in->hidden, hidden->out; the last gene may carry no trait
	g := tGenome("g", 1, tmplCfg{outputs: 1, hidden: 1, genes: 3, traits: 2, params: 1, symRecur: true, symEnable: true, nilTraits: true,
		links: [][2]int{{3, 3}, {0, 3}, {3, 2}}})
	src := g.Genes[vChoice("gene on the wire", 3)]
	var buf bytes.Buffer
	wr := &plainGenomeWriter{w: bufio.NewWriter(&buf)}
	vAssume(wr.writeConnectionGene(src) == nil)
	vAssume(wr.w.Flush() == nil)
	got, err := readPlainConnectionGene(&buf, g.Traits, g.Nodes)
	vAssert(err == nil, "C16 wire: a written connection gene reads back without error")
	if err != nil {
		return
	}
	find := func(id int) *network.NNode {
		for _, n := range g.Nodes {
			if n.Id == id {
				return n
			}
		}
		return nil
	}
	vAssert(got.Link != nil && got.Link.InNode == find(src.Link.InNode.Id) && got.Link.OutNode == find(src.Link.OutNode.Id),
		"C16 wire: the decoded gene joins the receiver's nodes with the ids of the original's endpoints (also when both are the same node)")
	if got.Link == nil {
		return
	}
	vAssert(got.Link.Trait == src.Link.Trait, "C16 wire: the decoded gene carries the trait with the original's trait id, or none")
	vAssert(vAnd(got.Link.ConnectionWeight == src.Link.ConnectionWeight, got.MutationNum == src.MutationNum), "C16 wire: weight and mutation number are those written")
	vAssert(vAnd(got.InnovationNum == src.InnovationNum, vAnd(got.IsEnabled == src.IsEnabled, got.Link.IsRecurrent == src.Link.IsRecurrent)), "C16 wire: innovation number, enabled and recurrence flag are those written")
	vReach("end")
}
