package genetics

import (
	"github.com/yaricom/goNEAT/v4/neat"
	"github.com/yaricom/goNEAT/v4/neat/network"
)

// Mutator harnesses shared by C01 (well-formedness is preserved), C05 (exactly the documented change) and
// C03 (innovation numbers / node ids). One inductive step from an arbitrary well-formed pre-state.

const (
	propC01 = 1
	propC05 = 5
	propC03 = 3
	propC16 = 16
)

const (
	mutAddNode = iota
	mutAddLink
	mutConnectSensors
	mutLinkWeights
	mutRandomTrait
	mutLinkTrait
	mutNodeTrait
	mutToggleEnable
	mutReEnable
	mutAllNonstructural
	mutCount
)

func ioRetainedSnap(g *Genome, s0 *genomeSnap, tag string) {
	ok := true
	for _, n := range s0.nodes {
		if n.ntype == network.HiddenNeuron {
			continue
		}
		found := false
		for _, m := range g.Nodes {
			if m.NeuronType == n.ntype {
				found = vOr(found, m.Id == n.id)
			}
		}
		ok = vAnd(ok, found)
	}
	vAssert(ok, tag+": all input, bias and output nodes of the ancestors are retained")
}

// symRecordEntry: one fully symbolic innovation record entry constrained only by the population invariant
// (I2 numbers/ids within the counters, I3/I4 consistency with the genes and nodes g already carries).
func symRecordEntry(g *Genome, nextInnov, nextNode int) Innovation {
	r := Innovation{}
	isNode := vBool("rec.isNodeType")
	if isNode {
		r.innovationType = newNodeInnType
	} else {
		r.innovationType = newLinkInnType
	}
	pickInt := func(tag string, lo, hi int) int {
		v := vInt(tag)
		vAssume(vAnd(v >= lo, v <= hi))
		return v
	}
	r.InNodeId = pickInt("rec.in", 1, 60)
	r.OutNodeId = pickInt("rec.out", 1, 60)
	r.InnovationNum = int64(pickInt("rec.innov", 1, 2000))
	vAssume(int(r.InnovationNum) <= nextInnov)
	r.IsRecurrent = vBool("rec.recur")
	if isNode {
		r.InnovationNum2 = int64(pickInt("rec.innov2", 1, 2000))
		vAssume(vAnd(int(r.InnovationNum2) <= nextInnov, r.InnovationNum2 != r.InnovationNum))
		r.NewNodeId = pickInt("rec.newNode", 1, 60)
		vAssume(r.NewNodeId <= nextNode)
		r.OldInnovNum = int64(pickInt("rec.oldInnov", 1, 2000))
		vAssume(vAnd(r.OldInnovNum != r.InnovationNum, r.OldInnovNum != r.InnovationNum2))
		vAssume(vAnd(r.NewNodeId != r.InNodeId, r.NewNodeId != r.OutNodeId))
		// I4: genes numbered like the record's two new genes are exactly those genes; a node with the new id is hidden;
		// the split (old) gene joins in->out; a genome carrying one of the new genes carries the new node
		hasNew := false
		for _, n := range g.Nodes {
			vAssume(vImplies(n.Id == r.NewNodeId, n.NeuronType == network.HiddenNeuron))
			hasNew = vOr(hasNew, n.Id == r.NewNodeId)
		}
		for _, gn := range g.Genes {
			l := gn.Link
			vAssume(vImplies(gn.InnovationNum == r.InnovationNum, vAnd(l.InNode.Id == r.InNodeId, l.OutNode.Id == r.NewNodeId)))
			vAssume(vImplies(gn.InnovationNum == r.InnovationNum2, vAnd(vAnd(l.InNode.Id == r.NewNodeId, l.OutNode.Id == r.OutNodeId), !l.IsRecurrent)))
			vAssume(vImplies(gn.InnovationNum == r.OldInnovNum, vAnd(l.InNode.Id == r.InNodeId, l.OutNode.Id == r.OutNodeId)))
			vAssume(vImplies(vOr(gn.InnovationNum == r.InnovationNum, gn.InnovationNum == r.InnovationNum2), hasNew))
			// in->new carries the recurrence flag of the split gene (if this genome still carries both)
			for _, og := range g.Genes {
				vAssume(vImplies(vAnd(gn.InnovationNum == r.InnovationNum, og.InnovationNum == r.OldInnovNum), l.IsRecurrent == og.Link.IsRecurrent))
			}
			// the new node is only ever touched by the two new genes (it was created this generation)
			touches := vOr(l.InNode.Id == r.NewNodeId, l.OutNode.Id == r.NewNodeId)
			vAssume(vImplies(touches, vOr(gn.InnovationNum == r.InnovationNum, gn.InnovationNum == r.InnovationNum2)))
		}
	} else {
		r.NewTraitNum = pickInt("rec.traitNum", 0, len(g.Traits)-1)
		w := vFloat("rec.weight")
		vAssume(vAnd(w >= -tMaxW, w <= tMaxW))
		r.NewWeight = w
		// I3: a gene numbered like the record's link is that link
		for _, gn := range g.Genes {
			l := gn.Link
			vAssume(vImplies(gn.InnovationNum == r.InnovationNum, vAnd(vAnd(l.InNode.Id == r.InNodeId, l.OutNode.Id == r.OutNodeId), l.IsRecurrent == r.IsRecurrent)))
		}
	}
	return r
}

type mutScene struct {
	g                    *Genome
	pop                  *Population
	opts                 *neat.Options
	s0                   *genomeSnap
	oldGenes             []*Gene
	oldNodes             []*network.NNode
	nextInnov0, nextNode int
	rec                  []Innovation
	maxOldInnov          int64
}

func newMutScene(c tmplCfg, record int) *mutScene {
	m := &mutScene{}
	m.g = tGenome("g", 7, c)
	m.opts = tOpts()
	m.pop = newPopulation()
	last := int(m.g.Genes[len(m.g.Genes)-1].InnovationNum)
	ni := vInt("pop.nextInnovNum")
	vAssume(vAnd(ni >= last, ni <= 2000))
	maxNode := m.g.Nodes[len(m.g.Nodes)-1].Id
	nn := vInt("pop.nextNodeId")
	vAssume(vAnd(nn >= maxNode, nn <= 50))
	m.pop.nextInnovNum, m.pop.nextNodeId = int64(ni), int32(nn)
	m.nextInnov0, m.nextNode = ni, nn
	for i := 0; i < record; i++ {
		r := symRecordEntry(m.g, ni, nn)
		m.pop.innovations = append(m.pop.innovations, r)
		m.rec = append(m.rec, r)
	}
	// I6 and "one entry per innovation" (sequential executor): numbers pairwise distinct, no two entries for the
	// same link / the same split, new node ids pairwise distinct
	for i := range m.rec {
		for j := i + 1; j < len(m.rec); j++ {
			a, b := m.rec[i], m.rec[j]
			vAssume(vAnd(a.InnovationNum != b.InnovationNum, vAnd(a.InnovationNum != b.InnovationNum2 || b.innovationType != newNodeInnType, b.InnovationNum != a.InnovationNum2 || a.innovationType != newNodeInnType)))
			if a.innovationType == newNodeInnType && b.innovationType == newNodeInnType {
				vAssume(vAnd(a.InnovationNum2 != b.InnovationNum2, a.NewNodeId != b.NewNodeId))
				vAssume(!vAnd(vAnd(a.InNodeId == b.InNodeId, a.OutNodeId == b.OutNodeId), a.OldInnovNum == b.OldInnovNum))
			}
			if a.innovationType == newLinkInnType && b.innovationType == newLinkInnType {
				vAssume(!vAnd(vAnd(a.InNodeId == b.InNodeId, a.OutNodeId == b.OutNodeId), a.IsRecurrent == b.IsRecurrent))
			}
		}
	}
	m.s0 = snap(m.g)
	m.oldGenes = append([]*Gene{}, m.g.Genes...)
	m.oldNodes = append([]*network.NNode{}, m.g.Nodes...)
	m.maxOldInnov = m.g.Genes[len(m.g.Genes)-1].InnovationNum
	return m
}

func (m *mutScene) run(k int) (bool, error) {
	g, opts := m.g, m.opts
	switch k {
	case mutAddNode:
		return g.mutateAddNode(m.pop, m.pop, opts)
	case mutAddLink:
		return g.mutateAddLink(m.pop, 1, opts)
	case mutConnectSensors:
		return g.mutateConnectSensors(m.pop, opts)
	case mutLinkWeights:
		return g.mutateLinkWeights(opts.WeightMutPower, 1.0, gaussianMutator)
	case mutRandomTrait:
		return g.mutateRandomTrait(opts)
	case mutLinkTrait:
		return g.mutateLinkTrait(1)
	case mutNodeTrait:
		return g.mutateNodeTrait(1)
	case mutToggleEnable:
		return g.mutateToggleEnable(1)
	case mutReEnable:
		return g.mutateGeneReEnable()
	case mutAllNonstructural:
		return g.mutateAllNonstructural(opts)
	}
	return false, nil
}

func isOld[T comparable](x T, old []T) bool {
	for _, o := range old {
		if o == x {
			return true
		}
	}
	return false
}

// ---------- C05 relations ----------

func (m *mutScene) oldGenesUnchangedExcept(skip *Gene, what string) {
	ok := true
	for i, og := range m.oldGenes {
		if og == skip {
			continue
		}
		ok = vAnd(ok, geneSnapEq(snapGene(og), m.s0.genes[i]))
	}
	vAssert(ok, what)
}

func (m *mutScene) nodesAndTraitsUnchanged(prefix string) {
	// old node objects keep id, role, activation type, trait
	ok := true
	for i, on := range m.oldNodes {
		ns := m.s0.nodes[i]
		same := on.NeuronType == ns.ntype && on.ActivationType == ns.atype && (on.Trait != nil) == ns.hasTrait && (on.Trait == nil || on.Trait.Id == ns.traitId)
		ok = vAnd(ok, vAnd(same, on.Id == ns.id))
	}
	vAssert(ok, prefix+": existing nodes are unchanged")
	vAssert(sameTraits(snap(m.g), m.s0), prefix+": traits are unchanged")
}

func (m *mutScene) checkC05(k int, res bool) {
	g := m.g
	var newGenes []*Gene
	for _, gn := range g.Genes {
		if !isOld(gn, m.oldGenes) {
			newGenes = append(newGenes, gn)
		}
	}
	var newNodes []*network.NNode
	for _, n := range g.Nodes {
		if !isOld(n, m.oldNodes) {
			newNodes = append(newNodes, n)
		}
	}
	kept := true
	for _, og := range m.oldGenes {
		kept = kept && isOld(og, g.Genes)
	}
	for _, on := range m.oldNodes {
		kept = kept && isOld(on, g.Nodes)
	}
	vAssert(kept, "C05: no existing gene or node is removed")
	switch k {
	case mutAddNode:
		if !res {
			return // the statement constrains successful add-node mutations only
		}
		vAssert(len(newGenes) == 2 && len(newNodes) == 1, "C05 add-node: exactly two new genes and one new node")
		if len(newGenes) != 2 || len(newNodes) != 1 {
			return
		}
		n := newNodes[0]
		vAssert(n.NeuronType == network.HiddenNeuron, "C05 add-node: the new node is hidden")
		// exactly one previously enabled gene is now disabled
		var split *Gene
		count := 0
		for i, og := range m.oldGenes {
			if m.s0.genes[i].enabled != og.IsEnabled {
				count++
				split = og
			}
		}
		// (enabled flags of the template are symbolic: decide by snapshot comparison on each path)
		vAssert(count == 1, "C05 add-node: exactly one existing gene changes its enabled flag")
		if count != 1 {
			return
		}
		var si int
		for i, og := range m.oldGenes {
			if og == split {
				si = i
			}
		}
		vAssert(vAnd(m.s0.genes[si].enabled, !split.IsEnabled), "C05 add-node: the split gene was enabled and is now disabled")
		m.oldGenesUnchangedExcept(split, "C05 add-node: all other genes are unchanged")
		sp := m.s0.genes[si]
		vAssert(vAnd(vAnd(split.Link.ConnectionWeight == sp.weight, split.InnovationNum == sp.innov), split.Link.IsRecurrent == sp.recur), "C05 add-node: the split gene keeps weight, number and flag")
		var ga, gb *Gene
		for _, ng := range newGenes {
			if ng.Link.OutNode == n {
				ga = ng
			}
			if ng.Link.InNode == n {
				gb = ng
			}
		}
		vAssert(ga != nil && gb != nil && ga != gb, "C05 add-node: one new gene enters and one leaves the new node")
		if ga == nil || gb == nil {
			return
		}
		vAssert(ga.Link.InNode == split.Link.InNode && gb.Link.OutNode == split.Link.OutNode, "C05 add-node: new genes are a->n and n->b")
		vAssert(vAnd(ga.Link.ConnectionWeight == 1, ga.Link.IsRecurrent == sp.recur), "C05 add-node: a->n has weight 1 and the old recurrence flag")
		vAssert(gb.Link.ConnectionWeight == sp.weight, "C05 add-node: n->b has the old weight")
		vAssert(vAnd(ga.IsEnabled, gb.IsEnabled), "C05 add-node: both new genes are enabled")
		m.nodesAndTraitsUnchanged("C05 add-node")
	case mutAddLink:
		if !res {
			vAssert(len(newGenes) == 0 && len(newNodes) == 0, "C05 add-link: an unsuccessful attempt adds nothing")
			m.oldGenesUnchangedExcept(nil, "C05 add-link: an unsuccessful attempt changes no gene")
			return
		}
		vAssert(len(newGenes) <= 1 && len(newNodes) == 0, "C05 add-link: at most one new gene, no new node")
		m.oldGenesUnchangedExcept(nil, "C05 add-link: existing genes are unchanged")
		m.nodesAndTraitsUnchanged("C05 add-link")
		if len(newGenes) == 1 {
			ng := newGenes[0]
			vAssert(isOld(ng.Link.InNode, m.oldNodes) && isOld(ng.Link.OutNode, m.oldNodes), "C05 add-link: the new gene joins two existing nodes")
			vAssert(!isSensorType(ng.Link.OutNode.NeuronType), "C05 add-link: the new gene does not end in a sensor")
			dup := false
			for i, og := range m.oldGenes {
				if og.Link.InNode == ng.Link.InNode && og.Link.OutNode == ng.Link.OutNode {
					dup = vOr(dup, m.s0.genes[i].recur == ng.Link.IsRecurrent)
				}
			}
			vAssert(!dup, "C05 add-link: the new gene duplicates no existing link")
		}
	case mutConnectSensors:
		vAssert(len(newNodes) == 0, "C05 connect-sensors: no new node")
		m.oldGenesUnchangedExcept(nil, "C05 connect-sensors: existing genes are unchanged")
		m.nodesAndTraitsUnchanged("C05 connect-sensors")
		if len(newGenes) == 0 {
			return
		}
		s := newGenes[0].Link.InNode
		vAssert(isSensorType(s.NeuronType) && isOld(s, m.oldNodes), "C05 connect-sensors: new genes leave a sensor of the genome")
		connectedBefore := false
		for _, og := range m.oldGenes {
			if og.Link.InNode == s {
				connectedBefore = true
			}
		}
		vAssert(!connectedBefore, "C05 connect-sensors: the sensor had no connection before")
		oneSensor, targetsOK := true, true
		for _, ng := range newGenes {
			oneSensor = oneSensor && ng.Link.InNode == s
			targetsOK = targetsOK && !isSensorType(ng.Link.OutNode.NeuronType) && isOld(ng.Link.OutNode, m.oldNodes)
		}
		vAssert(oneSensor, "C05 connect-sensors: all new genes leave the same sensor")
		vAssert(targetsOK, "C05 connect-sensors: new genes end in non-sensor nodes of the genome")
		if res {
			nonSensors := 0
			for _, n := range m.oldNodes {
				if !isSensorType(n.NeuronType) {
					nonSensors++
					cnt := 0
					for _, ng := range newGenes {
						if ng.Link.OutNode == n {
							cnt++
						}
					}
					vAssert(cnt == 1, "C05 connect-sensors: exactly one new gene to every non-sensor node")
				}
			}
		}
	default:
		// weight, trait, toggle-enable, re-enable (and their combination): structure is untouched
		vAssert(len(newGenes) == 0 && len(newNodes) == 0 && len(g.Genes) == len(m.oldGenes) && len(g.Nodes) == len(m.oldNodes), "C05 parametric: node set and gene set unchanged")
		ok := true
		for i, og := range m.oldGenes {
			sg := m.s0.genes[i]
			ok = vAnd(ok, vAnd(og.InnovationNum == sg.innov, og.Link.IsRecurrent == sg.recur))
			ok = vAnd(ok, og.Link.InNode.Id == sg.in && og.Link.OutNode.Id == sg.out && g.Genes[i] == og)
		}
		vAssert(ok, "C05 parametric: gene endpoints, order and innovation numbers unchanged")
		okN := true
		for i, on := range m.oldNodes {
			okN = okN && on.Id == m.s0.nodes[i].id && on.NeuronType == m.s0.nodes[i].ntype && g.Nodes[i] == on
		}
		vAssert(okN, "C05 parametric: node ids and roles unchanged")
		if k == mutToggleEnable {
			for i, og := range m.oldGenes {
				was := m.s0.genes[i].enabled
				// a gene that was switched off leaves a node that still has another enabled gene
				other := false
				for _, o2 := range m.oldGenes {
					if o2 != og && o2.Link.InNode.Id == og.Link.InNode.Id {
						other = vOr(other, o2.IsEnabled)
					}
				}
				vAssert(vImplies(vAnd(was, !og.IsEnabled), other), "C05 toggle-enable: never disables the last enabled gene leaving a node")
			}
		}
		if k == mutReEnable {
			seenDisabled := false
			for i, og := range m.oldGenes {
				was := m.s0.genes[i].enabled
				firstDisabled := vAnd(!was, !seenDisabled)
				vAssert(vImplies(firstDisabled, og.IsEnabled), "C05 re-enable: the first disabled gene is enabled")
				vAssert(vImplies(!firstDisabled, og.IsEnabled == was), "C05 re-enable: no other gene changes its enabled flag")
				seenDisabled = vOr(seenDisabled, !was)
			}
		}
	}
}

// ---------- C03 relations ----------

// checkNumbers: the part of the innovation bookkeeping that must hold under the sequential AND the parallel executor
// (it does not rely on numbers being consecutive or on the record being free of duplicates).
func (m *mutScene) checkNumbers(tag string) {
	g := m.g
	// numbers and ids issued now are larger than any the population held before
	okNew := true
	for _, gn := range g.Genes {
		if !isOld(gn, m.oldGenes) {
			fromRecord := false
			for _, r := range m.rec {
				fromRecord = vOr(fromRecord, vOr(gn.InnovationNum == r.InnovationNum, gn.InnovationNum == r.InnovationNum2))
			}
			okNew = vAnd(okNew, vOr(fromRecord, int(gn.InnovationNum) > m.nextInnov0))
		}
	}
	vAssert(okNew, tag+": a new gene carries a number from this generation's record or a number larger than any held before")
	okNode := true
	for _, n := range g.Nodes {
		if !isOld(n, m.oldNodes) {
			fromRecord := false
			for _, r := range m.rec {
				fromRecord = vOr(fromRecord, vAnd(r.innovationType == newNodeInnType, n.Id == r.NewNodeId))
			}
			okNode = vAnd(okNode, vOr(fromRecord, n.Id > m.nextNode))
			vAssert(n.NeuronType == network.HiddenNeuron, tag+": a node id issued by a mutation denotes a hidden node")
		}
	}
	vAssert(okNode, tag+": a new node carries the id from this generation's record or an id larger than any held before")
	// counters never fall behind what is in use
	inUse := true
	for _, gn := range g.Genes {
		inUse = vAnd(inUse, gn.InnovationNum <= m.pop.nextInnovNum)
	}
	for _, n := range g.Nodes {
		inUse = vAnd(inUse, n.Id <= int(m.pop.nextNodeId))
	}
	vAssert(inUse, tag+": the population counters are at least every number/id in use")
	// equal number => equal link, over the genome, the record (old and new entries)
	recs := m.pop.Innovations()
	cons := true
	for _, gn := range g.Genes {
		l := gn.Link
		for _, r := range recs {
			if r.innovationType == newLinkInnType {
				cons = vAnd(cons, vImplies(gn.InnovationNum == r.InnovationNum, vAnd(vAnd(l.InNode.Id == r.InNodeId, l.OutNode.Id == r.OutNodeId), l.IsRecurrent == r.IsRecurrent)))
			} else {
				cons = vAnd(cons, vImplies(gn.InnovationNum == r.InnovationNum, vAnd(l.InNode.Id == r.InNodeId, l.OutNode.Id == r.NewNodeId)))
				cons = vAnd(cons, vImplies(gn.InnovationNum == r.InnovationNum2, vAnd(l.InNode.Id == r.NewNodeId, l.OutNode.Id == r.OutNodeId)))
			}
		}
	}
	vAssert(cons, tag+": a gene numbered like a recorded innovation is that innovation's link")
	// numbers inside the record are pairwise distinct
	distinct := true
	nums := func(r Innovation) []int64 {
		if r.innovationType == newNodeInnType {
			return []int64{r.InnovationNum, r.InnovationNum2}
		}
		return []int64{r.InnovationNum}
	}
	for i := range recs {
		for j := i + 1; j < len(recs); j++ {
			for _, a := range nums(recs[i]) {
				for _, b := range nums(recs[j]) {
					distinct = vAnd(distinct, a != b)
				}
			}
		}
	}
	vAssert(distinct, tag+": recorded innovations carry pairwise distinct numbers")
}

func (m *mutScene) checkC03(k int) {
	m.checkNumbers("C03")
	g := m.g
	recs := m.pop.Innovations()
	// identical structural innovations arising in the same generation receive identical numbers: the record never
	// holds two entries for the same new link or for the same split of the same gene
	once := true
	for i := range recs {
		for j := i + 1; j < len(recs); j++ {
			a, b := recs[i], recs[j]
			if a.innovationType != b.innovationType {
				continue
			}
			same := vAnd(a.InNodeId == b.InNodeId, a.OutNodeId == b.OutNodeId)
			if a.innovationType == newNodeInnType {
				once = vAnd(once, !vAnd(same, a.OldInnovNum == b.OldInnovNum))
			} else {
				once = vAnd(once, !vAnd(same, a.IsRecurrent == b.IsRecurrent))
			}
		}
	}
	vAssert(once, "C03: the same structural innovation is recorded once per generation (a repeated one reuses the recorded numbers)")
	// the two genes of a recorded split: in->new keeps the split gene's flag, new->out is never recurrent
	flags := true
	for _, gn := range g.Genes {
		if isOld(gn, m.oldGenes) {
			continue // the flags of genes this genome already carried are the pre-state invariant
		}
		for _, r := range recs {
			if r.innovationType == newNodeInnType {
				flags = vAnd(flags, vImplies(gn.InnovationNum == r.InnovationNum2, !gn.Link.IsRecurrent))
				for _, og := range g.Genes {
					flags = vAnd(flags, vImplies(vAnd(gn.InnovationNum == r.InnovationNum, og.InnovationNum == r.OldInnovNum), gn.Link.IsRecurrent == og.Link.IsRecurrent))
				}
			}
		}
	}
	vAssert(flags, "C03: genes numbered like a recorded split carry that split's recurrence flags")
	// the same structural innovation arising again in the same generation gets the same numbers: every gene this
	// step created is described by an entry of the generation's record (re-used or just stored), so that the next
	// genome performing the same mutation finds it - an innovation that is performed but not recorded would be
	// numbered afresh the second time
	_ = k
	recorded := true
	for _, gn := range g.Genes {
		if isOld(gn, m.oldGenes) {
			continue
		}
		l := gn.Link
		covered := false
		for _, r := range recs {
			if r.innovationType == newLinkInnType {
				covered = vOr(covered, vAnd(vAnd(gn.InnovationNum == r.InnovationNum, l.IsRecurrent == r.IsRecurrent), vAnd(l.InNode.Id == r.InNodeId, l.OutNode.Id == r.OutNodeId)))
				continue
			}
			// a split: the entry names the split gene (by number and endpoints), which this genome carries
			split := false
			for _, og := range g.Genes {
				if isOld(og, m.oldGenes) {
					split = vOr(split, vAnd(og.InnovationNum == r.OldInnovNum, vAnd(og.Link.InNode.Id == r.InNodeId, og.Link.OutNode.Id == r.OutNodeId)))
				}
			}
			first := vAnd(gn.InnovationNum == r.InnovationNum, vAnd(l.InNode.Id == r.InNodeId, l.OutNode.Id == r.NewNodeId))
			second := vAnd(gn.InnovationNum == r.InnovationNum2, vAnd(l.InNode.Id == r.NewNodeId, l.OutNode.Id == r.OutNodeId))
			covered = vOr(covered, vAnd(split, vOr(first, second)))
		}
		recorded = vAnd(recorded, covered)
	}
	vAssert(recorded, "C03: every structural innovation performed in a generation is in that generation's record (so that the same innovation arising again receives the same numbers)")
}

func vcMut(prop int, k int, c tmplCfg, record int) {
	m := newMutScene(c, record)
	res, err := m.run(k)
	vAssert(err == nil, "the mutator returns no error on a well-formed genome")
	switch prop {
	case propC01:
		wfCheck(m.g, "C01 after mutation")
		ioRetainedSnap(m.g, m.s0, "C01 after mutation")
		genesisOK(m.g, "C01 after mutation")
	case propC05:
		m.checkC05(k, res)
	case propC03:
		m.checkC03(k)
	case propC16:
		m.checkNumbers("C16 step")
		m.checkMine()
	}
	vReach("end")
}

var cfgSmall = tmplCfg{outputs: 1, hidden: 1, genes: 3, traits: 1, params: 1, fixedBase: true, symRecur: true, symEnable: true}
var cfgLink = tmplCfg{outputs: 1, hidden: 1, genes: 2, traits: 1, params: 1, fixedBase: true, symRecur: false, symEnable: false}
var cfgSensors = tmplCfg{outputs: 1, hidden: 1, genes: 2, traits: 2, params: 1, fixedBase: true, biasFree: true, symRecur: true, symEnable: true}
var cfgSensors2 = tmplCfg{outputs: 1, hidden: 1, genes: 2, traits: 1, params: 1, symRecur: false, symEnable: true, links: [][2]int{{0, 2}, {3, 2}}}
var cfgLinkLate = tmplCfg{outputs: 1, hidden: 1, genes: 2, traits: 1, params: 1, fixedBase: true, lateInput: true}

// 15 genes: the branch of mutateAddNode that picks the gene to split uniformly at random (genomes of >= 15 genes)
var cfgLarge = tmplCfg{outputs: 2, hidden: 2, genes: 15, traits: 1, params: 1, symRecur: false, symEnable: false,
	links: [][2]int{{0, 2}, {0, 3}, {0, 4}, {0, 5}, {1, 2}, {2, 4}, {3, 5}, {2, 5}, {4, 2}, {4, 3}, {4, 5}, {5, 2}, {5, 3}, {5, 4}, {4, 4}}}

// node ids with a gap below the hidden node: a re-used add-node record may name a node id that has to be inserted
// in the middle of the node list
var cfgGap = tmplCfg{outputs: 1, hidden: 1, genes: 3, traits: 1, params: 1, fixedBase: true, symRecur: false, symEnable: true, hiddenGap: true}

// 15 genes with symbolic enabled flags: the uniform-choice branch when its tries land on genes that cannot be split
var cfgLargeFlags = tmplCfg{outputs: 2, hidden: 2, genes: 15, traits: 1, params: 1, symRecur: false, symEnable: true,
	links: cfgLarge.links}
var cfgTiny = tmplCfg{outputs: 1, hidden: 0, genes: 2, traits: 1, params: 1, fixedBase: true, symRecur: false, symEnable: true}
var cfgTwoTraits = tmplCfg{outputs: 1, hidden: 1, genes: 3, traits: 2, params: 1, fixedBase: true, symRecur: false, symEnable: true}

func VC01_AddNode()     { vcMut(propC01, mutAddNode, cfgSmall, vChoice("record", 2)) }
func VC01_AddNode_Gap() { vcMut(propC01, mutAddNode, cfgGap, 1) }
func VC01_AddLink()     { vcMut(propC01, mutAddLink, cfgLink, vChoice("record", 2)) }
func VC01_AddLink_Thorough() {
	tNewLinkTries = 2
	vcMut(propC01, mutAddLink, cfgSmall, vChoice("record", 2))
}
func VC01_ConnectSensors()  { vcMut(propC01, mutConnectSensors, cfgSensors, vChoice("record", 3)) }
func VC01_ConnectSensors2() { vcMut(propC01, mutConnectSensors, cfgSensors2, vChoice("record", 2)) }
func VC01_AddLinkLate()     { vcMut(propC01, mutAddLink, cfgLinkLate, vChoice("record", 2)) }
func VC01_Parametric() {
	vcMut(propC01, mutLinkWeights+vChoice("mutator", mutAllNonstructural-mutLinkWeights), cfgTwoTraits, 0)
}
func VC01_AllNonstructural() { vcMut(propC01, mutAllNonstructural, cfgTiny, 0) }
func VC05_AddNode()          { vcMut(propC05, mutAddNode, cfgSmall, vChoice("record", 2)) }
func VC05_AddLink()          { vcMut(propC05, mutAddLink, cfgLink, vChoice("record", 2)) }
func VC05_AddLink_Thorough() {
	tNewLinkTries = 2
	vcMut(propC05, mutAddLink, cfgSmall, vChoice("record", 2))
}
func VC05_ConnectSensors()  { vcMut(propC05, mutConnectSensors, cfgSensors, vChoice("record", 3)) }
func VC05_ConnectSensors2() { vcMut(propC05, mutConnectSensors, cfgSensors2, vChoice("record", 2)) }
func VC05_AddLinkLate()     { vcMut(propC05, mutAddLink, cfgLinkLate, vChoice("record", 2)) }
func VC05_Parametric() {
	vcMut(propC05, mutLinkWeights+vChoice("mutator", mutAllNonstructural-mutLinkWeights), cfgTwoTraits, 0)
}
func VC05_AllNonstructural() { vcMut(propC05, mutAllNonstructural, cfgTiny, 0) }
func VC03_AddNode()          { vcMut(propC03, mutAddNode, cfgSmall, vChoice("record", 2)) }
func VC03_AddLink()          { vcMut(propC03, mutAddLink, cfgLink, vChoice("record", 2)) }
func VC03_AddLink_Thorough() {
	tNewLinkTries = 2
	vcMut(propC03, mutAddLink, cfgSmall, vChoice("record", 2))
}
func VC03_ConnectSensors()  { vcMut(propC03, mutConnectSensors, cfgSensors, vChoice("record", 3)) }
func VC03_ConnectSensors2() { vcMut(propC03, mutConnectSensors, cfgSensors2, vChoice("record", 2)) }
func VC03_AddLinkLate()     { vcMut(propC03, mutAddLink, cfgLinkLate, vChoice("record", 2)) }

// all tries of the uniform-choice branch draw the same gene (stated bound): reaches the exhaustion of its 20 tries
func VC05_AddNode_LargeExhaust() {
	vRandSameInts(true)
	vcMut(propC05, mutAddNode, cfgLargeFlags, 0)
	vRandSameInts(false)
}
func VC01_AddNode_Large() { vcMut(propC01, mutAddNode, cfgLarge, 0) }
func VC05_AddNode_Large() { vcMut(propC05, mutAddNode, cfgLarge, 0) }
func VC03_AddNode_Large() { vcMut(propC03, mutAddNode, cfgLarge, 0) }
