package genetics

import (
	"github.com/yaricom/goNEAT/v4/neat"
	"github.com/yaricom/goNEAT/v4/neat/network"
)

// C10: Species.reproduce with the REAL duplicate; the mutation and mating operators are replaced by stubs that
// visibly modify / replace the genome (their own behaviour is C01/C04/C05), so "some baby is an unmodified copy of
// the champion" is decided by the reproduce logic and the copy constructor alone.

const c10Mark = 5000.0

func c10MarkGenome(g *Genome) {
	if len(g.Genes) > 0 {
		g.Genes[0].Link.ConnectionWeight += c10Mark // far outside the template's weight range
	}
}
func c10LinkWeights(g *Genome, power, rate float64, mutationType mutatorType) (bool, error) {
	c10MarkGenome(g)
	return true, nil
}
func c10AddLink(g *Genome, innovations InnovationsObserver, generation int, opts *neat.Options) (bool, error) {
	c10MarkGenome(g)
	return true, nil
}
func c10AddNode(g *Genome, innovations InnovationsObserver, ids network.NodeIdGenerator, opts *neat.Options) (bool, error) {
	c10MarkGenome(g)
	return true, nil
}
func c10ConnectSensors(g *Genome, innovations InnovationsObserver, opts *neat.Options) (bool, error) {
	c10MarkGenome(g)
	return true, nil
}
func c10AllNonstructural(g *Genome, opts *neat.Options) (bool, error) {
	c10MarkGenome(g)
	return true, nil
}
func c10Mate(g *Genome, og *Genome, id int, f1, f2 float64) (*Genome, error) {
	child := tinyGenome(id)
	c10MarkGenome(child)
	return child, nil
}
func c10MateSingle(g *Genome, og *Genome, id int) (*Genome, error) { return c10Mate(g, og, id, 0, 0) }
func c10Compat(g *Genome, og *Genome, opts *neat.Options) float64  { return 1 }

func vc10(minQuota, maxQuota int, mating bool, pool int, interspecies bool) {
	champ := tGenome("champion", 1, tmplCfg{outputs: 1, hidden: 1, genes: 3, traits: 1, params: 1, symRecur: true, symEnable: true,
		links: [][2]int{{0, 2}, {0, 3}, {3, 2}}})
	s0 := snap(champ)
	sp := NewSpecies(1)
	sp.Age = 3
	co := &Organism{Genotype: champ, Species: sp, Fitness: 10, originalFitness: 10}
	sp.Organisms = append(sp.Organisms, co)
	for i := 1; i < pool; i++ {
		sp.Organisms = append(sp.Organisms, &Organism{Genotype: tinyGenome(50 + i), Species: sp, Fitness: 1, originalFitness: 1})
	}
	q := vInt("quota")
	vAssume(vAnd(q >= minQuota, q <= maxQuota))
	sp.ExpectedOffspring = q
	sc := vInt("superChampOffspring")
	vAssume(vAnd(sc >= 0, sc <= q))
	co.superChampOffspring = sc
	co.isPopulationChampion = vBool("isPopulationChampion")
	opts := &neat.Options{PopSize: 20}
	// link adding enabled or disabled: the super-champion branch consults it. On the mutation route one of the two
	// structural rates is symbolic at a time (each ordinary baby walks the whole rate chain).
	linkAdding := !mating && vChoice("structural mutation enabled: add-node / add-link", 2) == 1
	if linkAdding {
		opts.MutateAddLinkProb = vFloat("MutateAddLinkProb")
		vAssume(vAnd(opts.MutateAddLinkProb >= 0, opts.MutateAddLinkProb <= 1))
	}
	if mating {
		opts.MutateOnlyProb, opts.MateOnlyProb, opts.MateMultipointProb = 0, 1, 1
	} else {
		opts.MutateOnlyProb = 1
		if !linkAdding {
			opts.MutateAddNodeProb = vFloat("MutateAddNodeProb")
			vAssume(vAnd(opts.MutateAddNodeProb >= 0, opts.MutateAddNodeProb <= 1))
		}
	}
	pop := newPopulation()
	sorted := []*Species{sp}
	if interspecies {
		// a better species in front of this one: the dad is drawn from the sorted list (possibly this species again)
		other := NewSpecies(2)
		other.Organisms = append(other.Organisms, &Organism{Genotype: tinyGenome(70), Species: other, Fitness: 20, originalFitness: 20})
		sorted = []*Species{other, sp}
		opts.InterspeciesMateRate = 1
	}
	babies, err := sp.reproduce(&hCtx{opts: opts}, 2, pop, sorted)
	vAssert(err == nil, "C10: reproduction succeeds")
	if err != nil {
		return
	}
	vAssert(len(babies) == vConcrete(q), "C10: a species returns exactly its quota of offspring")
	if vConcrete(q) > 5 {
		found := false
		for _, b := range babies {
			found = vOr(found, sameSnap(snap(b.Genotype), s0))
		}
		vAssert(found, "C10: a species with a quota above five passes an unmodified copy of its champion's genome on")
	}
	fresh := true
	for i, b := range babies {
		fresh = fresh && b != co && b.Genotype != champ
		for _, c := range babies[i+1:] {
			fresh = fresh && b != c && b.Genotype != c.Genotype
		}
	}
	vAssert(fresh, "C10: every offspring is a new organism with its own genome")
	ids := true
	for i, b := range babies {
		for _, c := range babies[i+1:] {
			ids = vAnd(ids, b.Genotype.Id != c.Genotype.Id)
		}
	}
	vAssert(fresh && ids, "C02: the offspring of one species carry pairwise distinct genome objects and genome ids")
	vAssert(sameSnap(snap(champ), s0), "C10: reproduction leaves the champion's genome untouched")
	vReach("end")
}

func VC10_Mutation_Quick()    { vc10(5, 7, false, 1, false) }
func VC10_Mating_Quick()      { vc10(6, 6, true, 2, false) }
func VC10_Mutation_Thorough() { vc10(4, 9, false, 2, false) }
func VC10_Mating_Thorough()   { vc10(6, 7, true, 2, false) }

// the interspecies mating route (the dad comes from another species of the sorted list)
func VC10_Interspecies_Thorough() { vc10(6, 6, true, 2, true) }
