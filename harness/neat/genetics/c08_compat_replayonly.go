package genetics

import "github.com/yaricom/goNEAT/v4/neat"

// native counterpart of the engine's redirect of Genome.compatibility
func (g *Genome) compatibility(og *Genome, opts *neat.Options) float64 { return c08Compat(g, og, opts) }
