package genetics

import (
	"github.com/yaricom/goNEAT/v4/neat"
)

// C16 (partial): the population's shared innovation state (record + counters) is free of data races for two
// reproduction goroutines. Each logical thread runs REAL code against one shared Population; the engine records the
// access traces and the solver searches all interleavings for two conflicting adjacent accesses.

func c16Body(k int, pop *Population, priv *Genome, opts *neat.Options, inn Innovation) func() {
	switch k {
	case 0:
		return func() { pop.StoreInnovation(inn) }
	case 1:
		return func() {
			n := 0
			for _, r := range pop.Innovations() {
				if r.innovationType == newLinkInnType {
					n++
				}
			}
			_ = n
		}
	case 2:
		return func() { _ = pop.NextInnovationNumber() }
	case 3:
		return func() { _ = pop.NextNodeId() }
	case 4:
		return func() { _, _ = priv.mutateAddNode(pop, pop, opts) }
	case 5:
		return func() { _, _ = priv.mutateConnectSensors(pop, opts) }
	}
	return func() { _, _ = priv.mutateAddLink(pop, 1, opts) }
}

func vc16(bodies int, prefill int) {
	pop := newPopulation()
	pop.nextInnovNum, pop.nextNodeId = 100, 20
	for i := 0; i < prefill; i++ {
		pop.innovations = append(pop.innovations, *NewInnovationForLink(1, 3, int64(50+i), 0.5, 0))
	}
	opts := tOpts()
	ga := tGenome("ga", 1, cfgSensors)
	gb := tGenome("gb", 2, cfgSensors)
	ka, kb := vChoice("thread A", bodies), vChoice("thread B", bodies)
	a := c16Body(ka, pop, ga, opts, *NewInnovationForLink(1, 4, 60, 0.5, 0))
	b := c16Body(kb, pop, gb, opts, *NewInnovationForNode(1, 3, 61, 62, 9, 1))
	vPar(pop, a, b)
	vReach("end")
}

func VC16_Api_Quick()         { vc16(4, vChoice("prefilled record entries", 3)) }
func VC16_Mutators_Thorough() { vc16(7, vChoice("prefilled record entries", 2)) }
