package genetics

import (
	"github.com/yaricom/goNEAT/v4/neat"
)

// C16 (partial): the population's shared innovation state (record + counters) is free of data races for two
// reproduction goroutines. Each logical thread runs REAL code against one shared Population; the engine records the
// access traces and the solver searches all interleavings for two conflicting adjacent accesses.

func c16Body(k int, pop *Population, priv *Genome, opts *neat.Options, inn Innovation) func() {
	switch k {
	case 0:
		return func() { pop.StoreInnovation(inn) }
	case 1:
		return func() {
			n := 0
			for _, r := range pop.Innovations() {
				if r.innovationType == newLinkInnType {
					n++
				}
			}
			_ = n
		}
	case 2:
		return func() { _ = pop.NextInnovationNumber() }
	case 3:
		return func() { _ = pop.NextNodeId() }
	case 4:
		return func() { _, _ = priv.mutateAddNode(pop, pop, opts) }
	case 5:
		return func() { _, _ = priv.mutateConnectSensors(pop, opts) }
	}
	return func() { _, _ = priv.mutateAddLink(pop, 1, opts) }
}

func vc16(bodiesA, bodiesB []int, prefill int, cfg tmplCfg) {
	pop := newPopulation()
	pop.nextInnovNum, pop.nextNodeId = 100, 20
	for i := 0; i < prefill; i++ {
		pop.innovations = append(pop.innovations, *NewInnovationForLink(1, 3, int64(50+i), 0.5, 0))
	}
	opts := tOpts()
	ga := tGenome("ga", 1, cfg)
	gb := tGenome("gb", 2, cfg)
	ka, kb := bodiesA[vChoice("thread A", len(bodiesA))], bodiesB[vChoice("thread B", len(bodiesB))]
	a := c16Body(ka, pop, ga, opts, *NewInnovationForLink(1, 4, 60, 0.5, 0))
	b := c16Body(kb, pop, gb, opts, *NewInnovationForNode(1, 3, 61, 62, 9, 1))
	vPar(pop, a, b)
	vReach("end")
}

var c16Tiny = tmplCfg{outputs: 1, hidden: 1, genes: 2, traits: 1, params: 1, fixedBase: true, biasFree: true}

func VC16_Api_Quick() {
	vc16([]int{0, 1, 2, 3}, []int{0, 1, 2, 3}, vChoice("prefilled record entries", 3), c16Tiny)
}

// a whole structural mutation on a thread-private genome against each API operation of the other thread
func VC16_Mutators_Thorough() {
	vc16([]int{4, 5, 6}, []int{0, 1, 2, 3, 4}, vChoice("prefilled record entries", 2), c16Tiny)
}
