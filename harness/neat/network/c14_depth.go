package network

// C14: activation depth = longest path to an output; termination; cap semantics; no traversal marks left.

type c14Graph struct {
	net   *Network
	nodes []*NNode // all nodes: sensors first, then outputs, then hidden
	adj   [][]bool // adj[i][j]: link i -> j
}

// c14Build forks over EVERY subset of directed links from any node to any non-sensor node (self-loops included).
// c14Ungrouped: the network's allNodes list is not grouped by role
var c14Ungrouped bool

// c14InputOnlyToFirstHidden: (thorough) the input feeds the first hidden node only, all other links are forked
var c14InputOnlyToFirstHidden bool

func c14Build(nIn, nOut, nHid int) *c14Graph {
	g := &c14Graph{}
	var ins, outs []*NNode
	id := 1
	for i := 0; i < nIn; i++ {
		n := NewSensorNode(id, false)
		id++
		ins = append(ins, n)
		g.nodes = append(g.nodes, n)
	}
	for i := 0; i < nOut; i++ {
		n := NewNNode(id, OutputNeuron)
		id++
		outs = append(outs, n)
		g.nodes = append(g.nodes, n)
	}
	for i := 0; i < nHid; i++ {
		n := NewNNode(id, HiddenNeuron)
		id++
		g.nodes = append(g.nodes, n)
	}
	total := len(g.nodes)
	g.adj = make([][]bool, total)
	for i := range g.adj {
		g.adj[i] = make([]bool, total)
	}
	for from := 0; from < total; from++ {
		for to := nIn; to < total; to++ {
			present := false
			if c14InputOnlyToFirstHidden && from < nIn {
				present = to == nIn+nOut
			} else {
				present = vChoice("edge", 2) == 1
			}
			if present {
				g.adj[from][to] = true
				g.nodes[to].ConnectFrom(g.nodes[from], 1.0)
			}
		}
	}
	all := g.nodes
	if c14Ungrouped {
		// the network's node list in an order that is not grouped by role: hidden nodes first, then sensors, then outputs
		all = nil
		all = append(all, g.nodes[nIn+nOut:]...)
		all = append(all, g.nodes[:nIn+nOut]...)
	}
	g.net = NewNetwork(ins, outs, all, 1)
	return g
}

// cyclic reports whether the link relation has a directed cycle (self-loops count).
func (g *c14Graph) cyclic() bool {
	n := len(g.nodes)
	state := make([]int, n)
	var visit func(i int) bool
	visit = func(i int) bool {
		state[i] = 1
		for j := 0; j < n; j++ {
			if g.adj[i][j] {
				if state[j] == 1 {
					return true
				}
				if state[j] == 0 && visit(j) {
					return true
				}
			}
		}
		state[i] = 2
		return false
	}
	for i := 0; i < n; i++ {
		if state[i] == 0 && visit(i) {
			return true
		}
	}
	return false
}

// longestTo: number of links on the longest path ending in node j (acyclic graphs only).
func (g *c14Graph) longestTo(j int) int {
	best := 0
	for i := range g.nodes {
		if g.adj[i][j] {
			if d := g.longestTo(i) + 1; d > best {
				best = d
			}
		}
	}
	return best
}

func (g *c14Graph) marksClear() bool {
	for _, n := range g.nodes {
		if n.visited {
			return false
		}
	}
	return true
}

func vc14(nIn, nOut, nHid int) {
	g := c14Build(nIn, nOut, nHid)
	unc, err := g.net.MaxActivationDepth()
	vAssert(err == nil, "uncapped depth query returns no error")
	vAssert(g.marksClear(), "no traversal marks after an uncapped query")
	if !g.cyclic() {
		want := 0
		for j := nIn; j < nIn+nOut; j++ {
			if d := g.longestTo(j); d > want {
				want = d
			}
		}
		vAssert(unc == want, "acyclic: depth = links on the longest path ending in an output")
	} else {
		vAssert(unc >= 0 && unc <= len(g.nodes), "cyclic: depth between 0 and the number of nodes")
	}
	again, err2 := g.net.MaxActivationDepth()
	vAssert(err2 == nil && again == unc, "a second uncapped query gives the same answer")

	cap := vInt("cap")
	vAssume(vAnd(cap >= 0, cap <= 12))
	capped, cerr := g.net.MaxActivationDepthWithCap(cap)
	if cap > 0 && unc > cap {
		vAssert(capped == cap, "cap exceeded: result is the cap")
		vAssert(cerr == ErrMaximalNetDepthExceeded, "cap exceeded: depth-exceeded error")
	} else {
		vAssert(capped == unc, "cap not exceeded: same result as uncapped")
		vAssert(cerr == nil, "cap not exceeded: no error")
	}
	vAssert(g.marksClear(), "no traversal marks after a capped query")
	after, err3 := g.net.MaxActivationDepth()
	vAssert(err3 == nil && after == unc, "a query after a capped one gives the fresh-network answer")
	vReach("end")
}

func VC14_Depth_Quick() { vc14(1, 1, 2) }
func VC14_Depth_Ungrouped() {
	c14Ungrouped = true
	vc14(1, 1, 2)
}
func VC14_Depth_TwoOut() { vc14(1, 2, 1) }
func VC14_Depth_Thorough() {
	c14InputOnlyToFirstHidden = true
	vc14(1, 1, 3)
}
