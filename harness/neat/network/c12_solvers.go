package network

import (
	neatmath "github.com/yaricom/goNEAT/v4/neat/math"
)

// c12Act replaces NodeActivatorsFactory.ActivateByType in the "uninterpreted activation" entries:
// act(type, x) is an arbitrary function of the type code and the input (its own correctness is C18).
func c12Act(f *neatmath.NodeActivatorsFactory, input float64, aux []float64, t neatmath.NodeActivationType) (float64, error) {
	return vUF2("act", float64(t), input), nil
}

func eqOutputs(got, want []float64, what string) {
	vAssert(len(got) == len(want), what+": number of outputs")
	if len(got) != len(want) {
		return
	}
	for i := range got {
		vObserveF(what, got[i])
		vAssertEqF(got[i], want[i], what+" = feed-forward function")
	}
}

func vc12(c tNetCfg) {
	t := tBuild(c)
	vAssume(t.allReachable())
	d := t.depth()
	vAssume(d >= 1)
	x := symInputs(c.nIn)
	want := t.reference(x)
	steps := d + vChoice("extraSteps", 2)

	// standard network solver
	err := t.net.LoadSensors(x)
	vAssert(err == nil, "standard: LoadSensors succeeds")
	_, err = t.net.ForwardSteps(steps)
	vAssert(err == nil, "standard: ForwardSteps succeeds")
	eqOutputs(t.net.ReadOutputs(), want, "standard solver")

	// fast solver: forward stepping
	fs, err := t.net.FastNetworkSolver()
	vAssert(err == nil, "fast solver can be built")
	if err != nil {
		return
	}
	vAssert(fs.LoadSensors(x) == nil, "fast: LoadSensors succeeds")
	_, err = fs.ForwardSteps(steps)
	vAssert(err == nil, "fast: ForwardSteps succeeds")
	eqOutputs(fs.ReadOutputs(), want, "fast forward stepping")

	// fast solver: recursive activation (fresh instance)
	fr, _ := t.net.FastNetworkSolver()
	vAssert(fr.LoadSensors(x) == nil, "fast recursive: LoadSensors succeeds")
	_, err = fr.RecursiveSteps()
	vAssert(err == nil, "fast: RecursiveSteps succeeds")
	eqOutputs(fr.ReadOutputs(), want, "fast recursive activation")

	// fast solver: relaxation, one step per call so that exactly `steps` steps are taken with delta > 0
	fx, _ := t.net.FastNetworkSolver()
	vAssert(fx.LoadSensors(x) == nil, "fast relax: LoadSensors succeeds")
	delta := vFloat("delta")
	vAssume(vAnd(delta > 0, delta <= 1))
	for i := 0; i < steps; i++ {
		_, err = fx.Relax(1, delta)
		vAssert(err == nil, "fast: Relax succeeds")
	}
	eqOutputs(fx.ReadOutputs(), want, "fast relaxation")

	// a single relaxation call that reports "not relaxed" has used all its steps
	fy, _ := t.net.FastNetworkSolver()
	_ = fy.LoadSensors(x)
	relaxed, err := fy.Relax(steps, delta)
	vAssert(err == nil, "fast: Relax succeeds")
	if !relaxed {
		eqOutputs(fy.ReadOutputs(), want, "fast relaxation (all steps used)")
	}
	vReach("end")
}

func VC12_Linear_Quick() {
	vc12(tNetCfg{nIn: 1, nBias: 1, nHid: 1, nOut: 1, atype: neatmath.LinearActivation})
}
func VC12_NoBias_Quick() {
	vc12(tNetCfg{nIn: 2, nBias: 0, nHid: 1, nOut: 1, atype: neatmath.LinearActivation})
}
func VC12_Uninterpreted_Quick() {
	vc12(tNetCfg{nIn: 1, nBias: 1, nHid: 1, nOut: 1, symTypes: true})
}
func VC12_Linear_Thorough() {
	vc12(tNetCfg{nIn: 2, nBias: 1, nHid: 2, nOut: 1, atype: neatmath.LinearActivation})
}
func VC12_Uninterpreted_Thorough() {
	vc12(tNetCfg{nIn: 1, nBias: 1, nHid: 2, nOut: 2, symTypes: true})
}
