package network

import (
	neatmath "github.com/yaricom/goNEAT/v4/neat/math"
)

// c12Act replaces NodeActivatorsFactory.ActivateByType in the "uninterpreted activation" entries:
// act(type, x) is an arbitrary function of the type code and the input (its own correctness is C18).
func c12Act(f *neatmath.NodeActivatorsFactory, input float64, aux []float64, t neatmath.NodeActivationType) (float64, error) {
	return vUF2("act", float64(t), input), nil
}

func eqOutputs(got, want []float64, what string) {
	vAssert(len(got) == len(want), what+": number of outputs")
	if len(got) != len(want) {
		return
	}
	for i := range got {
		vObserveF(what, got[i])
		vAssertEqF(got[i], want[i], what+" = feed-forward function")
	}
}

// run drives one solver: load, propagate, read
type c12Solver struct {
	name string
	load func([]float64) error
	run  func() error
	read func() []float64
}

func vc12(c tNetCfg) {
	t := tBuild(c)
	vAssume(t.allReachable())
	vAssume(t.acyclic())
	d := t.depth()
	vAssume(d >= 1)
	steps := d + vChoice("extraSteps", 2)
	delta := vFloat("delta")
	vAssume(vAnd(delta > 0, delta <= 1))

	fs, err := t.net.FastNetworkSolver()
	vAssert(err == nil, "fast solver can be built")
	if err != nil {
		return
	}
	fr, _ := t.net.FastNetworkSolver()
	fx, _ := t.net.FastNetworkSolver()
	// the standard solver's own "as many steps as the network is deep" route, on an independent instance
	tr := t.clone()
	solvers := []c12Solver{
		{"standard solver", t.net.LoadSensors, func() error { _, e := t.net.ForwardSteps(steps); return e }, t.net.ReadOutputs},
		{"fast forward stepping", fs.LoadSensors, func() error { _, e := fs.ForwardSteps(steps); return e }, fs.ReadOutputs},
		{"fast recursive activation", fr.LoadSensors, func() error { _, e := fr.RecursiveSteps(); return e }, fr.ReadOutputs},
		// relaxation, one step per call so that exactly `steps` steps are taken with delta > 0
		{"fast relaxation", fx.LoadSensors, func() error {
			for i := 0; i < steps; i++ {
				if _, e := fx.Relax(1, delta); e != nil {
					return e
				}
			}
			return nil
		}, fx.ReadOutputs},
		{"standard solver, recursive steps", tr.net.LoadSensors, func() error { _, e := tr.net.RecursiveSteps(); return e }, tr.net.ReadOutputs},
	}
	// two input vectors in a row on the SAME instances: the value depends on the loaded inputs only
	for round := 0; round < 2; round++ {
		x := symInputs(c.nIn)
		want := t.reference(x)
		for si, s := range solvers {
			if round == 1 && si == 3 {
				// a second relaxation run compares signals of two different input vectors against delta: those
				// branch conditions are non-linear in 64-bit products and do not finish; relaxation is checked once
				continue
			}
			vAssert(s.load(x) == nil, s.name+": LoadSensors succeeds")
			vAssert(s.run() == nil, s.name+": propagation succeeds")
			eqOutputs(s.read(), want, s.name)
		}
		if round == 0 {
			// a single relaxation call that reports "not relaxed" has used all its steps
			fy, _ := t.net.FastNetworkSolver()
			_ = fy.LoadSensors(x)
			relaxed, err := fy.Relax(steps, delta)
			vAssert(err == nil, "fast: Relax succeeds")
			if !relaxed {
				eqOutputs(fy.ReadOutputs(), want, "fast relaxation (all steps used)")
			}
		}
	}
	vReach("end")
}

func VC12_Linear_Quick() {
	vc12(tNetCfg{nIn: 1, nBias: 1, nHid: 1, nOut: 1, atype: neatmath.LinearActivation})
}
func VC12_TwoBias_Quick() {
	vc12(tNetCfg{nIn: 1, nBias: 2, nHid: 0, nOut: 1, atype: neatmath.LinearActivation})
}
func VC12_BiasFirst_Quick() {
	vc12(tNetCfg{nIn: 2, nBias: 1, nHid: 0, nOut: 1, biasFirst: true, atype: neatmath.LinearActivation})
}
func VC12_NoBias_Quick() {
	vc12(tNetCfg{nIn: 2, nBias: 0, nHid: 1, nOut: 1, atype: neatmath.LinearActivation})
}
func VC12_Uninterpreted_Quick() {
	vc12(tNetCfg{nIn: 1, nBias: 1, nHid: 1, nOut: 1, symTypes: true})
}
func VC12_TwoOut_Quick() {
	vc12(tNetCfg{nIn: 1, nBias: 1, nHid: 1, nOut: 2, atype: neatmath.LinearActivation})
}

// the output list names the outputs in another order than the node list: "at every output" means position by position
// in the network's own output list
func VC12_TwoOutReversed_Quick() {
	vc12(tNetCfg{nIn: 1, nBias: 1, nHid: 0, nOut: 2, outsReversed: true, atype: neatmath.LinearActivation})
}

// two hidden nodes whose link may run against the id order
func VC12_TwoHidden_Quick() {
	vc12(tNetCfg{nIn: 1, nBias: 1, nHid: 2, nOut: 1, hidAnyOrder: true, atype: neatmath.LinearActivation})
}
func VC12_Linear_Thorough() {
	vc12(tNetCfg{nIn: 2, nBias: 1, nHid: 2, nOut: 1, hidAnyOrder: true, atype: neatmath.LinearActivation})
}
func VC12_Uninterpreted_Thorough() {
	vc12(tNetCfg{nIn: 1, nBias: 1, nHid: 2, nOut: 1, hidAnyOrder: true, symTypes: true})
}
