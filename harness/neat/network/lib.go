package network

import (
	neatmath "github.com/yaricom/goNEAT/v4/neat/math"
)

const tW = 10

// tNet is a network built directly from nodes and links (what Genome.Genesis produces; C11 ties the two).
type tNet struct {
	net                  *Network
	ins, bias, outs, hid []*NNode
	all                  []*NNode
	from, to             []int // link endpoints as indices into all
	w                    []float64
	nSensors             int
	neuronsFirst         bool
	outsReversed         bool
}

type tNetCfg struct {
	nIn, nBias, nHid, nOut int
	recurrent              bool // also allow backward links and self-loops among neurons
	atype                  neatmath.NodeActivationType
	symTypes               bool // activation type of each neuron symbolic (used with the uninterpreted act redirect)
	biasFirst              bool // bias nodes are listed before the input nodes (sensor order is by id, not by role)
	concreteW              bool // distinct concrete weights (keeps recurrent multi-step terms linear in the inputs)
	neuronsFirst           bool // the network's node list names the neurons before the sensors (not grouped sensors-first)
	outsReversed           bool // the network's output list names the outputs in the reverse of their order in the node list
	hidAnyOrder            bool // feed-forward links between two hidden nodes may also run from the later-listed (higher id) to the earlier one
}

func symW(tag string) float64 {
	w := vFloat(tag)
	vAssume(vAnd(w >= -tW, w <= tW))
	return w
}

// tBuild forks over every subset of the candidate links.
func tBuild(c tNetCfg) *tNet {
	t := &tNet{}
	id := 1
	mkIn := func() {
		for i := 0; i < c.nIn; i++ {
			n := NewSensorNode(id, false)
			id++
			t.ins = append(t.ins, n)
		}
	}
	mkBias := func() {
		for i := 0; i < c.nBias; i++ {
			n := NewSensorNode(id, true)
			id++
			t.bias = append(t.bias, n)
		}
	}
	if c.biasFirst {
		mkBias()
		mkIn()
	} else {
		mkIn()
		mkBias()
	}
	mk := func(nt NodeNeuronType) *NNode {
		n := NewNNode(id, nt)
		id++
		n.ActivationType = c.atype
		if c.symTypes {
			a := vInt("atype")
			vAssume(vAnd(a >= 1, a <= 20))
			n.ActivationType = neatmath.NodeActivationType(a)
		}
		return n
	}
	for i := 0; i < c.nOut; i++ {
		t.outs = append(t.outs, mk(OutputNeuron))
	}
	for i := 0; i < c.nHid; i++ {
		t.hid = append(t.hid, mk(HiddenNeuron))
	}
	if c.biasFirst {
		t.all = append(t.all, t.bias...)
		t.all = append(t.all, t.ins...)
	} else {
		t.all = append(t.all, t.ins...)
		t.all = append(t.all, t.bias...)
	}
	t.all = append(t.all, t.outs...)
	t.all = append(t.all, t.hid...)
	t.nSensors = c.nIn + c.nBias
	firstHid := t.nSensors + c.nOut
	add := func(f, to int) {
		if vChoice("edge", 2) == 1 {
			t.link(c, f, to)
		}
	}
	// sensors -> hidden, outputs
	for s := 0; s < t.nSensors; s++ {
		for n := t.nSensors; n < len(t.all); n++ {
			add(s, n)
		}
	}
	// hidden -> later hidden, hidden -> outputs
	for h := firstHid; h < len(t.all); h++ {
		for h2 := h + 1; h2 < len(t.all); h2++ {
			if c.hidAnyOrder && !c.recurrent {
				// either direction, never both (the topological order need not be the id order: add-node gives the
				// new, higher-numbered node to an older hidden node as a source)
				switch vChoice("hidden link", 3) {
				case 1:
					t.link(c, h, h2)
				case 2:
					t.link(c, h2, h)
				}
				continue
			}
			add(h, h2)
		}
		for o := t.nSensors; o < firstHid; o++ {
			add(h, o)
		}
	}
	if c.recurrent {
		for h := firstHid; h < len(t.all); h++ {
			add(h, h) // self-loop
			for h2 := firstHid; h2 < h; h2++ {
				add(h, h2) // backward
			}
		}
		for o := t.nSensors; o < firstHid; o++ {
			add(o, o)
			for h := firstHid; h < len(t.all); h++ {
				add(o, h)
			}
		}
	}
	inputs := append([]*NNode{}, t.all[:t.nSensors]...)
	t.neuronsFirst = c.neuronsFirst
	t.outsReversed = c.outsReversed
	t.net = NewNetwork(inputs, t.outList(), t.listed(), 1)
	return t
}

func (t *tNet) link(c tNetCfg, f, to int) {
	var w float64
	if c.concreteW {
		w = []float64{0.5, -0.75, 1.25, -0.375, 0.625, -1.5, 0.875, 0.25, -0.125, 1.75, -0.9375, 0.4375}[len(t.w)%12]
	} else {
		w = symW("w")
	}
	t.all[to].ConnectFrom(t.all[f], w)
	t.from = append(t.from, f)
	t.to = append(t.to, to)
	t.w = append(t.w, w)
}

// acyclic: no directed cycle among the links (Kahn)
func (t *tNet) acyclic() bool {
	indeg := make([]int, len(t.all))
	for k := range t.to {
		indeg[t.to[k]]++
	}
	removed := make([]bool, len(t.all))
	for n := 0; n < len(t.all); n++ {
		found := -1
		for j := range indeg {
			if !removed[j] && indeg[j] == 0 {
				found = j
				break
			}
		}
		if found < 0 {
			return false
		}
		removed[found] = true
		for k := range t.from {
			if t.from[k] == found {
				indeg[t.to[k]]--
			}
		}
	}
	return true
}

// reachableFromSensor: every neuron has a directed path from some sensor.
func (t *tNet) allReachable() bool {
	reach := make([]bool, len(t.all))
	for i := 0; i < t.nSensors; i++ {
		reach[i] = true
	}
	for changed := true; changed; {
		changed = false
		for k := range t.from {
			if reach[t.from[k]] && !reach[t.to[k]] {
				reach[t.to[k]] = true
				changed = true
			}
		}
	}
	for _, r := range reach {
		if !r {
			return false
		}
	}
	return true
}

// depthTo: links on the longest path ending in node j (acyclic only).
func (t *tNet) depthTo(j int) int {
	best := 0
	for k := range t.from {
		if t.to[k] == j {
			if d := t.depthTo(t.from[k]) + 1; d > best {
				best = d
			}
		}
	}
	return best
}

func (t *tNet) depth() int {
	best := 0
	for j := t.nSensors; j < t.nSensors+len(t.outs); j++ {
		if d := t.depthTo(j); d > best {
			best = d
		}
	}
	return best
}

// refValue: the feed-forward function written from the statement: each neuron once, in topological order,
// activation(sum of weight*source); inputs as loaded, bias = 1.
func (t *tNet) refValue(j int, x []float64, memo []float64, done []bool) float64 {
	if done[j] {
		return memo[j]
	}
	var v float64
	switch {
	case t.all[j].NeuronType == InputNeuron:
		k := 0
		for i := 0; i < j; i++ {
			if t.all[i].NeuronType == InputNeuron {
				k++
			}
		}
		v = x[k]
	case t.all[j].NeuronType == BiasNeuron:
		v = 1.0
	default:
		sum := 0.0
		for k := range t.from {
			if t.to[k] == j {
				sum += t.w[k] * t.refValue(t.from[k], x, memo, done)
			}
		}
		out, err := neatmath.NodeActivators.ActivateByType(sum, nil, t.all[j].ActivationType)
		vAssert(err == nil, "reference: activation type is registered")
		v = out
	}
	memo[j], done[j] = v, true
	return v
}

func (t *tNet) reference(x []float64) []float64 {
	memo := make([]float64, len(t.all))
	done := make([]bool, len(t.all))
	outs := make([]float64, len(t.outs))
	for i := range t.outs {
		j := i
		if t.outsReversed {
			j = len(t.outs) - 1 - i
		}
		outs[i] = t.refValue(t.nSensors+j, x, memo, done)
	}
	return outs
}

func symInputs(n int) []float64 {
	x := make([]float64, n)
	for i := range x {
		x[i] = symW("x")
	}
	return x
}

// outList: the output list handed to the network - in node-list order or reversed
func (t *tNet) outList() []*NNode {
	if !t.outsReversed {
		return t.outs
	}
	l := make([]*NNode, 0, len(t.outs))
	for i := len(t.outs) - 1; i >= 0; i-- {
		l = append(l, t.outs[i])
	}
	return l
}

// listed: the node list handed to the network - t.all, or with the neurons named before the sensors
func (t *tNet) listed() []*NNode {
	if !t.neuronsFirst {
		return t.all
	}
	l := append([]*NNode{}, t.all[t.nSensors:]...)
	return append(l, t.all[:t.nSensors]...)
}
