package network

import (
	neatmath "github.com/yaricom/goNEAT/v4/neat/math"
)

// clone builds an independent network with the same topology and the same (symbolic) weights.
func (t *tNet) clone() *tNet {
	c := &tNet{nSensors: t.nSensors, from: t.from, to: t.to, w: t.w, neuronsFirst: t.neuronsFirst, outsReversed: t.outsReversed}
	for _, n := range t.all {
		m := NewNNode(n.Id, n.NeuronType)
		m.ActivationType = n.ActivationType
		c.all = append(c.all, m)
		switch {
		case n.NeuronType == InputNeuron:
			c.ins = append(c.ins, m)
		case n.NeuronType == BiasNeuron:
			c.bias = append(c.bias, m)
		case n.NeuronType == OutputNeuron:
			c.outs = append(c.outs, m)
		default:
			c.hid = append(c.hid, m)
		}
	}
	for k := range t.from {
		c.all[t.to[k]].ConnectFrom(c.all[t.from[k]], t.w[k])
	}
	inputs := append(append([]*NNode{}, c.ins...), c.bias...)
	c.net = NewNetwork(inputs, c.outList(), c.listed(), 2)
	return c
}

type stepper interface {
	LoadSensors([]float64) error
	ForwardSteps(int) (bool, error)
	ReadOutputs() []float64
	Flush() (bool, error)
}

// sameRun drives the flushed instance and the fresh instance with the same input sequence and compares every output.
func sameRun(flushed, fresh stepper, rounds, nIn int, what string) {
	// "any subsequent sequence of sensor loads and activations": the sequence may also START with an activation
	skipFirstLoad := vChoice("sequence starts with an activation", 2) == 1
	for r := 0; r < rounds; r++ {
		if !(skipFirstLoad && r == 0) {
			y := symInputs(nIn)
			e1, e2 := flushed.LoadSensors(y), fresh.LoadSensors(y)
			vAssert((e1 == nil) == (e2 == nil), what+": LoadSensors behaves as on a fresh instance")
		}
		var e1, e2 error
		steps := 1 + vChoice("steps", 2)
		_, e1 = flushed.ForwardSteps(steps)
		_, e2 = fresh.ForwardSteps(steps)
		vAssert((e1 == nil) == (e2 == nil), what+": activation succeeds/fails as on a fresh instance")
		o1, o2 := flushed.ReadOutputs(), fresh.ReadOutputs()
		for i := range o1 {
			vObserveF(what, o1[i])
			vAssertEqF(o1[i], o2[i], what+": output equals that of a fresh instance")
		}
	}
}

func history(s stepper, rounds, nIn int) {
	for r := 0; r < rounds; r++ {
		_ = s.LoadSensors(symInputs(nIn))
		_, _ = s.ForwardSteps(1 + vChoice("hsteps", 2))
	}
}

func vc13(c tNetCfg, hist, seq int) {
	t := tBuild(c)
	vAssume(t.allReachable())
	which := vChoice("solver", 4)
	switch which {
	case 0: // standard network
		history(t.net, hist, c.nIn)
		ok, err := t.net.Flush()
		vAssert(ok && err == nil, "standard: Flush succeeds")
		sameRun(t.net, t.clone().net, seq, c.nIn, "standard network after flush")
	case 1: // fast solver, forward stepping
		a, err := t.net.FastNetworkSolver()
		b, _ := t.net.FastNetworkSolver()
		vAssert(err == nil, "fast solver can be built")
		if err != nil {
			return
		}
		history(a, hist, c.nIn)
		ok, err := a.Flush()
		vAssert(ok && err == nil, "fast: Flush succeeds")
		sameRun(a, b, seq, c.nIn, "fast solver after flush")
	case 3: // fast solver: recursive activation before the flush, forward stepping / relaxation after it
		a, err := t.net.FastNetworkSolver()
		b, _ := t.net.FastNetworkSolver()
		if err != nil {
			return
		}
		_ = a.LoadSensors(symInputs(c.nIn))
		_, _ = a.RecursiveSteps()
		ok, err := a.Flush()
		vAssert(ok && err == nil, "fast: Flush succeeds")
		sameRun(a, b, seq, c.nIn, "fast solver after flush (recursive history, forward stepping after)")
	case 2: // fast solver, relaxation and recursive activation in the history
		a, err := t.net.FastNetworkSolver()
		b, _ := t.net.FastNetworkSolver()
		if err != nil {
			return
		}
		_ = a.LoadSensors(symInputs(c.nIn))
		delta := vFloat("delta")
		vAssume(vAnd(delta > 0, delta <= 1))
		_, _ = a.Relax(2, delta)
		_, _ = a.RecursiveSteps()
		_, _ = a.Flush()
		// after the flush: recursive activation on both
		y := symInputs(c.nIn)
		_, _ = a.LoadSensors(y), b.LoadSensors(y)
		_, e1 := a.RecursiveSteps()
		_, e2 := b.RecursiveSteps()
		vAssert((e1 == nil) == (e2 == nil), "fast recursive after flush: succeeds/fails as on a fresh instance")
		o1, o2 := a.ReadOutputs(), b.ReadOutputs()
		for i := range o1 {
			vAssertEqF(o1[i], o2[i], "fast recursive after flush: output equals that of a fresh instance")
		}
		sameRun(a, b, 1, c.nIn, "fast solver after flush (relax/recursive history)")
	}
	vReach("end")
}

func VC13_Flush_Quick() {
	vc13(tNetCfg{nIn: 1, nBias: 1, nHid: 1, nOut: 1, recurrent: true, atype: neatmath.LinearActivation, concreteW: true}, 1, 2)
}

// the network's node list names the neurons before the sensors (Genesis keeps the genome's node order, which need
// not be grouped by role)
func VC13_Flush_NeuronsFirst() {
	vc13(tNetCfg{nIn: 1, nBias: 1, nHid: 1, nOut: 1, recurrent: true, atype: neatmath.LinearActivation, concreteW: true, neuronsFirst: true}, 1, 1)
}
func VC13_Flush_SymbolicWeights() {
	vc13(tNetCfg{nIn: 1, nBias: 0, nHid: 1, nOut: 1, recurrent: true, atype: neatmath.LinearActivation}, 1, 1)
}
func VC13_Flush_Sigmoid() {
	vc13(tNetCfg{nIn: 1, nBias: 0, nHid: 1, nOut: 1, recurrent: true, atype: neatmath.SigmoidSteepenedActivation}, 2, 1)
}
func VC13_Flush_Thorough() {
	vc13(tNetCfg{nIn: 1, nBias: 0, nHid: 2, nOut: 1, recurrent: true, atype: neatmath.LinearActivation, concreteW: true}, 1, 2)
}
