#!/bin/bash
# usage: tools/confirm_mutant.sh <mutant dir with patch.diff demo_test.go> <name>
# Confirms in a fresh scratch worktree: demo passes on the clean tree, fails with the patch; the whole existing suite passes with the patch.
export GOFLAGS=-mod=mod GOPROXY=off GOSUMDB=off GOTOOLCHAIN=local
src="$1"; name="$2"; wt=/tmp/cm/$name
mkdir -p /tmp/cm; rm -rf "$wt"; git -C /repo worktree prune
git -C /repo worktree add -q --detach "$wt" HEAD || exit 2
place=$(head -3 "$src/demo_test.go" | grep -o "place at: *[^ ]*" | sed 's/place at: *//')
[ -z "$place" ] && { echo "no 'place at:' line"; exit 2; }
cp "$src/demo_test.go" "$wt/$place"
pkg=./$(dirname "$place")
names=$(grep -o "^func Test[A-Za-z0-9_]*" "$src/demo_test.go" | sed "s/func //" | paste -sd"|")
[ -z "$names" ] && names="Demo"
race=""; head -8 "$src/demo_test.go" | grep -q -- "-race" && race="-race"
cd "$wt"
{
echo "== demo on clean tree ($pkg)"; go test $race -vet=off -count=1 -run "^($names)\$" "$pkg" 2>&1 | tail -3; c1=${PIPESTATUS[0]}
git apply "$src/patch.diff" || { echo "patch failed"; }
echo "== demo on patched tree"; go test $race -vet=off -count=1 -run "^($names)\$" "$pkg" 2>&1 | tail -6; c2=${PIPESTATUS[0]}
rm -f "$wt/$place"
echo "== existing suite on patched tree"; go build ./... && go test -vet=off -count=1 -timeout 25m ./... 2>&1 | grep -v "no test files" | tail -14; c3=${PIPESTATUS[0]}
echo "RESULT demo_clean_exit=$c1 demo_patched_exit=$c2 suite_exit=$c3"
} > "$src/confirm.log" 2>&1
cd /; git -C /repo worktree remove --force "$wt"
tail -1 "$src/confirm.log"
