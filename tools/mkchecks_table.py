#!/usr/bin/env python3
"""Rewrites section 12 of DESIGN.md (registered checks and bounds) from checks/*.json."""
import json, glob, os, re
V=os.path.dirname(os.path.dirname(os.path.abspath(__file__)))
out=['<!-- checks-table-begin -->']
for f in sorted(glob.glob(os.path.join(V,'checks','C*.json'))):
    c=json.load(open(f))
    out.append('\n**%s** — assumptions: %s. Outside the bounds: %s.\n'%(c['property'],'; '.join(c.get('assumptions',[])) or '—','; '.join(c.get('outside_bounds',[])) or '—'))
    out.append('| entry | tier | float model | what is executed and asserted | bounds | stubs / cuts |')
    out.append('|---|---|---|---|---|---|')
    for e in c['entries']:
        extra=[]
        if e.get('redirects'): extra.append('redirects: '+', '.join('%s→%s'%(k.split('.')[-1].split(')')[-1] or k,v) for k,v in e['redirects'].items()))
        if e.get('allow_cuts'): extra.append('cut (unwind %s): %s'%(e.get('unwind','?'),e.get('cut_reason','')))
        pass
        if e.get('race'): extra.append('replay under -race')
        out.append('| %s | %s | %s | %s | %s | %s |'%(e['entry'],e.get('tier','quick'),e.get('mode','R'),e.get('desc','').replace('|','/'),e.get('bounds','').replace('|','/'),'; '.join(extra).replace('|','/') or '—'))
out.append('<!-- checks-table-end -->')
table='\n'.join(out)
p=os.path.join(V,'DESIGN.md')
s=open(p).read()
if '<!-- checks-table-begin -->' in s:
    s=re.sub(r'<!-- checks-table-begin -->.*?<!-- checks-table-end -->',lambda m:table,s,flags=re.S)
else:
    marker='## Appendix A — encoding table'
    sec='## 12. Registered checks, entry by entry (generated from `checks/*.json` by `tools/mkchecks_table.py`)\n\nEvery entry is a harness function executed symbolically on the real code; `tier` both = quick and thorough.\n\n'+table+'\n\n---------------------------------------------------------------------------------------------------\n\n'
    s=s.replace(marker,sec+marker)
open(p,'w').write(s)
print('ok')
