#!/usr/bin/env python3
"""Regenerates /verif/MANIFEST.json from tools/claims.json (per-property text) and checks/*.json."""
import json, os
V = os.path.dirname(os.path.dirname(os.path.abspath(__file__)))
ids = [json.loads(l)['id'] for l in open(os.path.join(V, 'properties.jsonl'))]
claims = json.load(open(os.path.join(V, 'tools', 'claims.json')))
checks, na = [], []
for i in ids:
    c = claims.get(i)
    spec = os.path.join(V, 'checks', i + '.json')
    if c and c.get('claimed') and os.path.exists(spec):
        checks.append({
            "property_id": i,
            "quick_cmd": "./check %s --tier quick" % i,
            "thorough_cmd": "./check %s --tier thorough" % i,
            "evidence_file": "/verif/evidence/%s.json" % i,
            "replay_cmd_template": "./check %s --replay {path}" % i,
            "engine": "gosym",
            "level_claimed": {"category": "model_checking", "text": c['text'], "design_ref": c.get('design_ref', 'DESIGN.md section 5, ' + i)},
            "level_note": c['note'],
            "technique": c.get('technique', "bounded symbolic execution of the real Go code (go/ssa -> SMT-LIB2), z3/cvc5 decide every path obligation; counter-examples replayed natively"),
        })
    else:
        na.append({"property_id": i, "reason": (c or {}).get('na_reason', "check not built yet (engine under construction); see DESIGN.md")})
m = {
    "version": 1,
    "setup_cmd": "cd /verif/engine && GOFLAGS=-mod=mod GOPROXY=off GOSUMDB=off GOTOOLCHAIN=local go build -o /verif/bin/gosym .",
    "hooks": {"guard": "verif", "enable": "none needed: harnesses are injected into the repository's packages through go/packages and `go test -overlay` overlays, so /repo carries no hook code", "baseline_off_cmd": "cd /repo && go test -vet=off -count=1 -timeout 25m ./...", "source_commits": [], "add_only": True},
    "engines": [{"name": "gosym", "path": "/verif/engine", "serves_properties": [c['property_id'] for c in checks], "kind_free_text": "own symbolic executor for go/ssa: concrete heap shapes, symbolic scalars, SMT-LIB2 to z3 4.8.12 / cvc5 1.0, stateless path exploration on 16 workers, native replay of models via go test -overlay"}],
    "checks": checks,
    "notes": "exit 0 = all obligations unsat within the stated bounds; exit 1 = natively confirmed counter-example; exit 2 = inconclusive (never on the unchanged tree for registered bounds). Known findings: /verif/known_findings.txt.",
    "not_applicable": na,
}
json.dump(m, open(os.path.join(V, 'MANIFEST.json'), 'w'), indent=1)
print("claimed:", [c['property_id'] for c in checks], "not applicable:", len(na))
