#!/bin/bash
# usage: tools/try_mutant_wt.sh <patch.diff> <check id> <name> [tier]
# Runs a check against a scratch worktree of /repo with the patch applied (never touches /repo); parallel-safe.
export GOFLAGS=-mod=mod GOPROXY=off GOSUMDB=off GOTOOLCHAIN=local
patch="$1"; id="$2"; name="$3"; tier="${4:-quick}"; wt=/tmp/tm/$name
mkdir -p /tmp/tm; rm -rf "$wt"; git -C /repo worktree prune
git -C /repo worktree add -q --detach "$wt" HEAD || exit 2
( cd "$wt" && git apply "$patch" ) || { echo "$name: patch does not apply"; git -C /repo worktree remove --force "$wt"; exit 2; }
out=/tmp/tm/$name.out
timeout 1500 /verif/bin/gosym check "$id" --tier "$tier" --repo "$wt" --no-evidence --replaydir /tmp/tm/replays_$name > "$out" 2>&1
rc=$?
git -C /repo worktree remove --force "$wt"; rm -rf /tmp/tm/replays_$name
v=$(grep -c "^VIOLATION" "$out")
a=$(grep "assertion=" "$out" | sed 's/inputs=.*//' | sed 's/^ *entry=//' | sort -u | head -2 | tr '\n' ';' | cut -c1-220)
i=$(grep "^INCONCLUSIVE" "$out" | head -1 | cut -c1-160)
echo "$name check=$id exit=$rc violations=$v $a $i"
