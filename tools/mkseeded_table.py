#!/usr/bin/env python3
"""Rewrites the seeded-changes table in DESIGN.md from seeded/*/meta.json."""
import json, glob, os, re
V=os.path.dirname(os.path.dirname(os.path.abspath(__file__)))
rows=[]
for f in sorted(glob.glob(os.path.join(V,'seeded','*','meta.json'))):
    m=json.load(open(f))
    patch=open(os.path.join(os.path.dirname(f),'patch.diff')).read()
    files=sorted(set(re.findall(r'^\+\+\+ b/(\S+)',patch,re.M)))
    note=m['what_it_needs_to_manifest'].replace('\n',' ').replace('|','/')
    note=(note[:230]+'…') if len(note)>230 else note
    rows.append('| %s | %s | %s | %s | %s |'%(m['id'],m['property'],', '.join(os.path.basename(x) for x in files),note,m['caught_by'].replace('|','/')+' — '+m['verdict']))
table='<!-- seeded-table-begin -->\n| id | property | file | change / what it needs | caught by |\n|----|----------|------|------------------------|-----------|\n'+'\n'.join(rows)+'\n<!-- seeded-table-end -->'
p=os.path.join(V,'DESIGN.md')
s=open(p).read()
if 'SEEDED_TABLE' in s:
    s=s.replace('SEEDED_TABLE',table)
else:
    s=re.sub(r'<!-- seeded-table-begin -->.*?<!-- seeded-table-end -->',lambda m:table,s,flags=re.S)
open(p,'w').write(s)
print(len(rows),'rows')
