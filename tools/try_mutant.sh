#!/bin/sh
# usage: tools/try_mutant.sh <patch.diff> <check id> [tier]   - applies the patch to /repo, runs the check, always reverts
patch="$1"; id="$2"; tier="${3:-quick}"
cd /repo || exit 2
git diff --quiet || { echo "/repo is dirty"; exit 2; }
trap 'git -C /repo checkout -- .' EXIT INT TERM
git apply "$patch" || { echo "patch does not apply"; exit 2; }
cd /verif && timeout 1500 ./check "$id" --tier "$tier" --no-evidence > /tmp/try_mutant.out 2>&1
rc=$?
git -C /repo checkout -- . 
grep -c "^VIOLATION" /tmp/try_mutant.out | sed "s/^/violations: /"
grep "^VIOLATION\|^INCONCLUSIVE\|^KNOWN" /tmp/try_mutant.out | cut -c1-260 | head -6
grep "assertion=" /tmp/try_mutant.out | sed 's/inputs=.*//' | cut -c1-260 | head -4
tail -1 /tmp/try_mutant.out | cut -c1-200
echo "exit=$rc"
