import json,os,shutil
R='round 4'
caught={
 'C01d-m1':('C01','VC01_AddLinkLate: "C01 after mutation: no connection ends in an input or bias node"'),
 'C01d-m2':('C01','VC01_SinglePoint: "C01 child: no two genes join the same ordered node pair with the same recurrence flag" (the disabled copy of a link carried under two numbers)'),
 'C01d-m3':('C16','./check C16, VC16_WireGene / VC16_WireGenome: "C16 wire: the decoded gene joins the receiver\'s nodes with the ids of the original\'s endpoints (also when both are the same node)"; ./check C01 exit 0 (the wire reader is reached by the parallel executor only, the C01 kernels are the operators)'),
 'C02d-m1':('C02','VC02_Finalize_Quick: "C02: the species id counter never goes back (ids are never reused)"'),
 'C02d-m2':('C02','VC02_Redistribute_Quick: "C02: the offspring quotas still total the configured population size after redistribution"'),
 'C02d-m3':('C09','./check C09, VC09_Adjust_Quick: reachable panic "slice bounds out of range" in Species.adjustFitness at survival threshold 1.0 (the threshold is solver-quantified in (0,1]); ./check C02 exit 0 (its kernels run with concrete thresholds below 1)'),
 'C03d-m1':('C04','./check C04, VC04_MultipointAvg: "C04 multipoint: every gene present in both parents is inherited" / VC04_SelfMating: "every child gene has the innovation number, endpoints and recurrence flag of a parent gene"; ./check C03 exit 0 (its kernels are the structural mutators)'),
 'C03d-m2':('C03','VC03_AddNode: "C03: genes numbered like a recorded split carry that split\'s recurrence flags"'),
 'C03d-m3':('C03','VC03_AddLink / AddLinkLate / AddNode: "C03: every structural innovation performed in a generation is in that generation\'s record (so that the same innovation arising again receives the same numbers)" (assertion added after the first run missed it: the clause had been left as a comment)'),
 'C07d-m1':('C07','VC07_Large_Quick: "linear method = formula" (entry added after the first run missed it: a 24-gene genome against its prefixes)'),
 'C07d-m2':('C07','VC07_Compat_Quick: "fast method = formula" / "fast method symmetric"'),
 'C07d-m3':('C07','VC07_Self_Quick: "option \'linear\' selects the linear method" (after the first run missed it the speciation threshold became a symbolic option in every C07 entry)'),
 'C09d-m1':('C09','VC09_Adjust_Quick: "C09: exactly floor(survival_thresh*n)+1 organisms of a species remain available as parents"'),
 'C09d-m2':('C09','VC09_Redistribute_Quick: "C09: the quotas still total the population size after babies are stolen / delta coding"'),
 'C09d-m3':('C09','VC09_Adjust_Quick: "C09: expected offspring x population mean of shared fitness = shared fitness"'),
 'C12d-m1':('C13','./check C13, VC13_Flush_Quick / NeuronsFirst: "fast solver after flush (recursive history, forward stepping after): output equals that of a fresh instance"; ./check C12 exit 0 (its entries never flush)'),
 'C12d-m2':('C12','VC12_TwoOutReversed_Quick: "fast forward stepping = feed-forward function" (entry added after the first run missed it: output list in another order than the node list)'),
 'C12d-m3':('C12','VC12_Linear_Quick / BiasFirst / TwoBias: "fast recursive activation = feed-forward function" (neuron fed by bias nodes only)'),
 'C14d-m1':('C14','VC14_Depth_Quick / TwoOut / Ungrouped: "cap not exceeded: no error"'),
 'C14d-m2':('C14','VC14_Depth_TwoOut: "cap exceeded: depth-exceeded error"'),
 'C14d-m3':('C14','VC14_Depth_Quick / TwoOut: "no traversal marks after an uncapped query"'),
 'C16d-m1':('C16','VC16_WireGene / VC16_WireGenome: "C16 wire: the decoded gene joins the receiver\'s nodes with the ids of the original\'s endpoints (also when both are the same node)"'),
 'C16d-m2':('C16','VC16_Executor_Quick: data race between the spawning thread\'s loop-variable write and the goroutine\'s read (population_epoch.go), confirmed by go test -race'),
 'C16d-m3':('C16','VC16_Step_AddNode: "C16 step: a new gene carries a number from this generation\'s record or a number larger than any held before"'),
 'C17d-m1':('C17','VC17_Kernels_Quick: "C17: same input and same random stream give the same genes, bit for bit" (map iteration order forked)'),
 'C17d-m2':('C17','VC17_HistoryOptions: "C17: options derived from used ones give the same number of organisms and species as fresh options with equal settings" (kernel added after the first run missed it)'),
 'C17d-m3':('C17','VC17_HistoryRoulette: "C17: earlier unrelated work does not change the activation type drawn for a new node" (a private time-seeded source does not follow the rewound stream)'),
 'C19d-m1':('C19','VC19_Floats_F: "IEEE: MeanVariance of {x, x} is (x, 0)"'),
 'C19d-m2':('C19','VC19_Complexity_Quick: "BestFitness = the greatest champion fitness of the trial" (entry added in this round before the change was seen: aggregates asked for after a WinnerStatistics lookup)'),
 'C19d-m3':('C19','VC19_Aggregates_Quick: "Trial.WinnerStatistics reports the first solved generation (also when asked again)"'),
}

caught.update({
 'C04d-m1':('C04','VC04_Multipoint: "C04 multipoint: genes present in one parent only come from the fitter parent" (tie broken by enabled-gene count)'),
 'C04d-m2':('C04','VC04_SinglePoint: "C04 child vs parent 1: all input, bias and output nodes of the ancestors are retained"'),
 'C04d-m3':('C04','VC04_MultipointAvg: "C04: enabled if enabled in every carrier, disabled if disabled in the only carrier"'),
 'C05d-m1':('C05','VC05_AddNode: "C05 add-node: a->n has weight 1 and the old recurrence flag"'),
 'C05d-m2':('C05','VC05_AddLinkLate: "C05 add-link: the new gene does not end in a sensor"'),
 'C05d-m3':('C05','VC05_ConnectSensors2: "C05 connect-sensors: the sensor had no connection before"'),
 'C06d-m1':('C06','VC06_Duplicate_Quick: "copy has the same genes (endpoints, weight, innovation and mutation number, recurrence and enabled flags, trait)" (nil trait after a gene with a trait)'),
 'C06d-m2':('C06','VC06_DuplicateModule_Quick: "module links of the copy are wired to the copy\'s own nodes, and a control node\'s trait is the copy\'s own"; VC06_SpawnModule_Quick: "organisms share no mutable state" (control-node trait added to the module template after the first run missed it)'),
 'C06d-m3':('C06','VC06_DuplicateLongTrait: "copy has the same traits" (entry added after the first run missed it: a trait with nine parameters)'),
 'C08d-m1':('C08','VC08_RepresentativeAfterSort: "C08: an organism joins a species iff it is closer than the threshold to the species\' CURRENT first organism" (entry added after the first run missed it: two speciation passes with the fitness sort in between)'),
 'C08d-m2':('C08','VC08_Speciate_Quick: "C08: a founded species gets the next fresh id"'),
 'C08d-m3':('C08','VC08_RealCompat: "C08: the second organism joins the first one\'s species iff their distance is below the threshold"'),
 'C10d-m1':('C09','./check C09, VC09_Redistribute_Quick: "C09: offspring reserved for a species champion never exceed the species quota" (the contract the C10 kernel assumes); ./check C10 exit 0'),
 'C10d-m2':('C10','VC10_Mating_Quick / VC10_Interspecies_Thorough: "C10: a species with a quota above five passes an unmodified copy of its champion\'s genome on"'),
 'C10d-m3':('C06','./check C06, VC06_Duplicate_Quick: "copy has the same genes (... enabled flags, trait)" (disabled gene without a trait); ./check C10 exit 0 (its template genes all carry traits)'),
 'C11d-m1':('C11','VC11_Module_Quick: "C11 graph: From lists exactly the successors"'),
 'C11d-m2':('C11','VC11_Genesis_Quick: "C11: exactly one link per enabled gene (same endpoints and recurrence flag)"'),
 'C11d-m3':('C11','VC11_Genesis_Quick / LateInput / SamePair: "C11 graph: an absent node is reported as nil" (the repaired typed-nil defect re-introduced)'),
 'C13d-m1':('C13','VC13_Flush_Quick / NeuronsFirst: "standard network after flush: output equals that of a fresh instance"'),
 'C13d-m2':('C13','VC13_Flush_Quick / NeuronsFirst: "standard network after flush: activation succeeds/fails as on a fresh instance" / "output equals that of a fresh instance"'),
 'C13d-m3':('C13','VC13_Flush_Quick / NeuronsFirst: "fast solver after flush (recursive history, forward stepping after): output equals that of a fresh instance"'),
 'C18d-m1':('C18','VC18_Value_F: "value is finite for |x| <= 1e300"'),
 'C18d-m2':('C18','VC18_Monotone_F: "monotonically non-decreasing"; VC18_Value_F: "value matches the closed-form definition" (the repaired -0.0 defect re-introduced)'),
 'C18d-m3':('C18','VC18_Registry: "only registered type codes have a name" / "no further names or codes are registered"'),
 'C20d-m1':('C20','VC20_Execute_Quick / NoObserver: "an evaluator error or a cancellation is returned to the caller" / "nothing happens beyond the protocol"'),
 'C20d-m2':('C20','VC20_Execute_Quick / NoObserver: "recorded generations carry their ids" (trials sharing one backing array)'),
 'C20d-m3':('C20','VC20_Execute_Quick / NoObserver: "a cancelled context stops the run before the next generation is evaluated"'),
})
missing=[]
for name,(chk,cb) in caught.items():
    pid=name[:3]; k=name[-1]
    src=f'/tmp/mut/{pid}d/_mutants/{k}'; dst=f'/verif/seeded/{name}'
    log=os.path.join(src,'confirm.log')
    if not os.path.exists(log) or 'RESULT' not in open(log).read():
        missing.append(name); continue
    conf=open(log).read().strip().split('\n')[-1]
    if conf!='RESULT demo_clean_exit=0 demo_patched_exit=1 suite_exit=0':
        print('NOT CONFIRMED',name,conf); continue
    os.makedirs(dst,exist_ok=True)
    for f in ('patch.diff','demo_test.go','note.txt','confirm.log'):
        shutil.copy(os.path.join(src,f),os.path.join(dst,f))
    via = chk!=pid
    meta={"id":name,"property":pid,"round":4,
      "source":"independent sub-agent given only the property text and a scratch worktree (round 4)",
      "what_it_needs_to_manifest":open(os.path.join(src,'note.txt')).read().strip(),
      "confirmed":{"how":"tools/confirm_mutant.sh in a fresh scratch worktree: demo passes clean / fails patched; the whole suite incl. examples/pole2 passes patched","result":conf},
      "check_run":f"tools/try_mutant_wt.sh seeded/{name}/patch.diff {chk} <name>",
      "caught_by":cb,
      "verdict":("VIOLATION via ./check %s (exit 1), natively replayed"%chk) if via else "VIOLATION (exit 1), natively replayed"}
    json.dump(meta,open(os.path.join(dst,'meta.json'),'w'),indent=1)
print('stored',len(caught)-len(missing),'missing',missing)
