import json,os,shutil
caught={
 'C18c-m1':'VC18_Value_F: "value is finite for |x| <= 1e300" / "value matches the closed-form definition" (exp overflow thresholds as axioms)',
 'C18c-m2':'VC18_Registry: reachable panic "call of nil function" for type code 0 (all 256 type codes are solver-quantified)',
 'C18c-m3':'VC18_Modules_F / VC18_Modules_R: "max module: result is one of the inputs"',
 'C08c-m1':'VC08_RealCompat: "C08: the second organism joins the first one\'s species iff their distance is below the threshold" (real fast distance vs the formula)',
 'C08c-m2':'VC08_Speciate_Quick: "C08: an arriving organism is compared with the representative of every non-empty species" (empty species in the list)',
 'C08c-m3':'VC08_Speciate_Quick: "C08: a founded species gets the next fresh id"',
 'C11c-m1':'VC11_Module_Quick: "C11: Complexity = nodes + links" (asked more than once)',
 'C11c-m2':'VC11_Module_Quick: "C11 graph: From lists exactly the successors" (two modules sharing an input node)',
 'C11c-m3':'VC11_Phenotype_Quick: "C11: UpdatePhenotype builds a new network"',
 'C06c-m1':'VC06_Duplicate_Quick / VC06_Independence_Quick: "copy: looking a node up by id returns it" (the copy\'s id index holds the original\'s nodes)',
 'C06c-m2':'VC06_Duplicate_Quick / DuplicateModule: "copy: every trait reference is one of the genome\'s own traits"',
 'C06c-m3':'VC06_DuplicateModule_Quick: "copy has the same modules" (optional second module added after the first run missed it: state leaks from one module\'s copy into the next)',
}
for name,cb in caught.items():
    pid=name[:3]; k=name[-1]
    src=f'/tmp/mut/{pid}c/_mutants/{k}'; dst=f'/verif/seeded/{name}'
    log=os.path.join(src,'confirm.log')
    if not os.path.exists(log) or 'RESULT' not in open(log).read():
        print('pending',name); continue
    conf=open(log).read().strip().split('\n')[-1]
    if conf!='RESULT demo_clean_exit=0 demo_patched_exit=1 suite_exit=0':
        print('NOT CONFIRMED',name,conf); continue
    os.makedirs(dst,exist_ok=True)
    for f in ('patch.diff','demo_test.go','note.txt','confirm.log'):
        shutil.copy(os.path.join(src,f),os.path.join(dst,f))
    meta={"id":name,"property":pid,"round":3,
      "source":"independent sub-agent given only the property text and a scratch worktree (round 3, same brief as round 2)",
      "what_it_needs_to_manifest":open(os.path.join(src,'note.txt')).read().strip(),
      "confirmed":{"how":"tools/confirm_mutant.sh in a fresh scratch worktree: demo passes clean / fails patched; the whole suite incl. examples/pole2 passes patched","result":conf},
      "check_run":f"tools/try_mutant_wt.sh seeded/{name}/patch.diff {pid} <name>",
      "caught_by":cb,"verdict":"VIOLATION (exit 1), natively replayed"}
    json.dump(meta,open(os.path.join(dst,'meta.json'),'w'),indent=1)
    print('stored',name)
