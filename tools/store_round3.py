import json,os,shutil
caught={
 'C05c-m1':('C05','VC05_AddNode_LargeExhaust: "C05 add-node: exactly one existing gene changes its enabled flag" (entry added after the first run missed it: 15-gene genome with symbolic enabled flags under the stated bound that all integer draws return one value, which reaches the exhaustion of the 20 tries)'),
 'C05c-m2':('C05','VC05_ConnectSensors / VC05_ConnectSensors2: "C05 connect-sensors: exactly one new gene to every non-sensor node"'),
 'C05c-m3':('C01','./check C01, VC01_AddNode_Gap: "C01 after mutation: looking a node up by id returns it" (entry added after the first run missed it: template with a gap in the node ids, so a re-used record inserts its node in the middle of the list); ./check C05 exit 0'),
 'C09c-m1':('C09','VC09_Adjust_Quick: "C09: shared fitness = age-adjusted fitness (0.01 penalty when stagnant, age-significance boost up to age ten) / species size"'),
 'C09c-m2':('C09','VC09_Redistribute_Quick: "C09: the quotas still total the population size after babies are stolen / delta coding"'),
 'C09c-m3':('C09','VC09_Adjust_Quick: "C09: exactly floor(survival_thresh*n)+1 organisms of a species remain available as parents"'),
 'C16c-m1':('C16','VC16_Step_AddNode: "C16 step: every new gene carries a recorded number or one the counter handed to this goroutine" (assertion added after the first run missed it: the interference stub remembers which numbers the counter handed to this goroutine)'),
 'C16c-m2':('C04','./check C04, VC04_SelfMating: "C04: the child shares no mutable state with its parents" (entry added after the first run missed it: a genome mated with itself); the race it causes in the parallel executor is not reached by the executor entries, ./check C16 exit 0'),
 'C16c-m3':('C16','VC16_WireGene / VC16_WireGenome: "C16 wire: the decoded gene joins the receiver\'s nodes with the ids of the original\'s endpoints (also when both are the same node)" (entries added after the first run missed it: the structural half of the wire format over a token channel); confirmed natively on the real text'),
 'C17c-m1':('C17','VC17_HistoryRoulette: "C17: earlier unrelated work does not change the activation type drawn for a new node" (entry added after the first run missed it)'),
 'C17c-m2':('C17','VC17_Kernels_Quick: "C17: same input and same random stream give the same genes, bit for bit" (map iteration order forked)'),
 'C17c-m3':('C17','VC17_Normalisation_F: "C17: expected offspring are identical bit for bit in two runs on the same population" (IEEE model)'),
 'C12c-m1':('C13','./check C13, VC13_Flush_Quick / VC13_Flush_Sigmoid: "fast solver after flush (recursive history, forward stepping after): output equals that of a fresh instance"; ./check C12 exit 0 (its entries never flush)'),
 'C12c-m2':('C14','./check C14, VC14_Depth_Quick / TwoOut: "no traversal marks after a capped query" (the original C14 defect re-introduced); ./check C12 exit 0'),
 'C12c-m3':('C12','VC12_Linear_Quick / VC12_BiasFirst_Quick: "fast relaxation = feed-forward function" (two solvers from one network alias their signal arrays)'),
 'C13c-m1':('C13','VC13_Flush_Quick / VC13_Flush_Sigmoid: "fast recursive after flush: output equals that of a fresh instance"'),
 'C13c-m2':('C13','VC13_Flush_Quick / VC13_Flush_Sigmoid: "fast solver after flush (recursive history, forward stepping after): output equals that of a fresh instance"'),
 'C13c-m3':('C13','VC13_Flush_NeuronsFirst: "standard network after flush: output equals that of a fresh instance" (entry added after the first run missed it: node list naming the neurons before the sensors)'),
 'C19c-m1':('C19','VC19_Aggregates_Quick: "Trial.WinnerStatistics reports the first solved generation (also when asked again)"'),
 'C19c-m2':('C19','VC19_Floats_F: "IEEE: the variance of {x, x} is exactly 0 (not NaN, no residue)" (IEEE-model kernel added after the first run missed it: the single-pass formula is identical over the reals)'),
 'C19c-m3':('C19','VC19_Aggregates_Quick: "BestSpeciesAge = species age of a champion with the best fitness"'),
 'C04c-m1':('C04','VC04_Multipoint / VC04_MultipointAvg: "C04 multipoint: genes present in one parent only come from the fitter parent"'),
 'C04c-m2':('C04','VC04_Multipoint: "C04: enabled if enabled in every carrier, disabled if disabled in the only carrier"'),
 'C04c-m3':('C04','VC04_Multipoint / Avg / SinglePoint: "C04 child vs parent 1: all input, bias and output nodes of the ancestors are retained"'),
 'C02c-m1':('C02','VC10_Mutation_Quick registered under C02 as well (after the first run missed it: the PopSize-3 epoch kernel cannot reach the champion-clone and super-champion branches): "C10: every offspring is a new organism with its own genome" / "C02: the offspring of one species carry pairwise distinct genome objects and genome ids"; also ./check C10'),
 'C02c-m2':('C02','VC02_Finalize_Quick: "C02: the species id counter never goes back (ids are never reused)"'),
 'C02c-m3':('C02','VC02_Redistribute_Quick: "C02: the offspring quotas still total the configured population size after redistribution"'),
 'C03c-m1':('C03','VC03_AddLink / VC03_AddLinkLate: "C03: a gene numbered like a recorded innovation is that innovation\'s link"'),
 'C03c-m2':('C03','VC03_ConnectSensors / VC03_ConnectSensors2: "C03: a gene numbered like a recorded innovation is that innovation\'s link"'),
 'C03c-m3':('C04','./check C04, VC04_MultipointAvg: "C04 multipoint: every gene present in both parents is inherited" / "every child gene has the innovation number, endpoints and recurrence flag of a parent gene"; ./check C03 exit 0 (its kernels are the structural mutators)'),
 'C10c-m1':('C09','./check C09, VC09_Redistribute_Quick: "C09: offspring reserved for a species champion never exceed the species quota" (the contract the C10 kernel assumes); ./check C10 exit 0'),
 'C10c-m2':('C06','./check C06, VC06_Duplicate_Quick / DuplicateModule: "copy shares no mutable state with the original" (trait parameter slices share a backing array); ./check C10 exit 0'),
 'C10c-m3':('C09','./check C09, VC09_Adjust_Quick: "C09: species organisms are ordered by fitness (best first)"; ./check C10 exit 0'),
 'C20c-m1':('C20','VC20_Execute_Quick: "observer: each evaluated generation notified once, in order, after it was recorded"'),
 'C20c-m2':('C20','VC20_Execute_Quick: "a cancelled context stops the run before the next generation is evaluated"'),
 'C20c-m3':('C20','VC20_Execute_Quick / NoObserver: "nothing happens beyond the protocol (no further evaluation, turnover or notification)" (Trials pre-sized longer than NumRuns)'),
}
missing=[]
for name,(chk,cb) in caught.items():
    pid=name[:3]; k=name[-1]
    src=f'/tmp/mut/{pid}c/_mutants/{k}'; dst=f'/verif/seeded/{name}'
    log=os.path.join(src,'confirm.log')
    if not os.path.exists(log) or 'RESULT' not in open(log).read():
        missing.append(name); continue
    conf=open(log).read().strip().split('\n')[-1]
    if conf!='RESULT demo_clean_exit=0 demo_patched_exit=1 suite_exit=0':
        print('NOT CONFIRMED',name,conf); continue
    os.makedirs(dst,exist_ok=True)
    for f in ('patch.diff','demo_test.go','note.txt','confirm.log'):
        shutil.copy(os.path.join(src,f),os.path.join(dst,f))
    via = chk!=pid
    meta={"id":name,"property":pid,"round":3,
      "source":"independent sub-agent given only the property text and a scratch worktree (round 3, same brief as round 2; the C16 and C17 agents worked against the extended claims)",
      "what_it_needs_to_manifest":open(os.path.join(src,'note.txt')).read().strip(),
      "confirmed":{"how":"tools/confirm_mutant.sh in a fresh scratch worktree: demo passes clean / fails patched; the whole suite incl. examples/pole2 passes patched","result":conf},
      "check_run":f"tools/try_mutant_wt.sh seeded/{name}/patch.diff {chk} <name>",
      "caught_by":cb,
      "verdict":("VIOLATION via ./check %s (exit 1), natively replayed"%chk) if via else "VIOLATION (exit 1), natively replayed"}
    json.dump(meta,open(os.path.join(dst,'meta.json'),'w'),indent=1)
print('stored',len(caught)-len(missing),'missing',missing)
