package main

// SMT solver back end: one long-lived process per worker, SMT-LIB2 text over a pipe.

import (
	"bufio"
	"fmt"
	"io"
	"math"
	"math/big"
	"os"
	"os/exec"
	"strconv"
	"strings"
	"syscall"
	"time"
)

type SolverStats struct {
	Queries, Sat, Unsat, Unknown, Errors int
	Restarts                             int // queries repeated after the solver process was lost
	Time                                 time.Duration
	MaxQuery                             time.Duration
}

type Solver struct {
	kind      string
	cmd       *exec.Cmd
	in        io.WriteCloser
	out       *bufio.Reader
	lines     chan string
	tb        *TB
	declared  map[string]bool
	timeoutMs int
	Stats     SolverStats
	dump      io.Writer
	nq        int
}

func solverArgv(kind string, timeoutMs int) []string {
	switch kind {
	case "z3":
		return []string{"z3", "-in", "-smt2", fmt.Sprintf("-t:%d", timeoutMs)}
	case "z3-new":
		return []string{"z3-new", "-in", "-smt2", fmt.Sprintf("-t:%d", timeoutMs)}
	case "cvc5":
		return []string{"cvc5", "--incremental", "--produce-models", "--lang=smt2", fmt.Sprintf("--tlimit-per=%d", timeoutMs)}
	}
	panic("unknown solver " + kind)
}

func NewSolver(kind string, tb *TB, timeoutMs int) (*Solver, error) {
	s := &Solver{kind: kind, tb: tb, timeoutMs: timeoutMs}
	if p := os.Getenv("GOSYM_DUMP"); p != "" {
		f, err := os.OpenFile(p, os.O_CREATE|os.O_WRONLY|os.O_APPEND, 0644)
		if err == nil {
			s.dump = f
		}
	}
	if err := s.start(); err != nil {
		return nil, err
	}
	return s, nil
}

func (s *Solver) start() error {
	argv := solverArgv(s.kind, s.timeoutMs)
	s.cmd = exec.Command(argv[0], argv[1:]...)
	s.cmd.SysProcAttr = &syscall.SysProcAttr{Pdeathsig: syscall.SIGKILL} // no orphaned solvers if the checker is killed
	in, err := s.cmd.StdinPipe()
	if err != nil {
		return err
	}
	out, err := s.cmd.StdoutPipe()
	if err != nil {
		return err
	}
	s.cmd.Stderr = s.cmd.Stdout
	if err := s.cmd.Start(); err != nil {
		return err
	}
	s.in = in
	s.out = bufio.NewReaderSize(out, 1<<20)
	lines := make(chan string, 256)
	s.lines = lines
	go func(r *bufio.Reader, ch chan string) {
		// reader goroutine: lets roundTrip enforce a HARD time limit (the solvers' own soft limits are not always honoured)
		for {
			line, err := r.ReadString('\n')
			if line != "" {
				ch <- line
			}
			if err != nil {
				close(ch)
				return
			}
		}
	}(s.out, lines)
	s.declared = map[string]bool{}
	pre := []string{
		"(set-option :produce-models true)",
		"(set-logic ALL)",
		"(define-fun gotdiv ((a Int) (b Int)) Int (ite (>= a 0) (ite (> b 0) (div a b) (- (div a (- b)))) (ite (> b 0) (- (div (- a) b)) (div (- a) (- b)))))",
		"(define-fun gotrem ((a Int) (b Int)) Int (- a (* b (gotdiv a b))))",
	}
	if s.tb.fmode {
		pre = append(pre, "(define-fun gof2i ((x (_ FloatingPoint 11 53))) Int (to_int (fp.to_real (fp.roundToIntegral RTZ x))))")
	} else {
		pre = append(pre, "(declare-fun rsqrt (Real) Real)")
	}
	if strings.HasPrefix(s.kind, "z3") {
		pre = append(pre, "(set-option :pp.decimal false)")
	}
	out2, err := s.roundTrip(strings.Join(pre, "\n"))
	if err != nil {
		return err
	}
	if strings.Contains(out2, "(error") {
		return fmt.Errorf("solver preamble rejected: %s", out2)
	}
	return nil
}

func (s *Solver) Close() {
	if s.cmd != nil {
		s.in.Close()
		s.cmd.Process.Kill()
		s.cmd.Wait()
		s.cmd = nil
	}
}

func (s *Solver) restart() {
	s.Close()
	if err := s.start(); err != nil {
		panic(fmt.Sprintf("solver restart failed: %v", err))
	}
}

const doneMarker = "<<gosym-done>>"

func (s *Solver) roundTrip(script string) (string, error) {
	if s.dump != nil {
		fmt.Fprintln(s.dump, script)
	}
	if _, err := io.WriteString(s.in, script+"\n(echo \""+doneMarker+"\")\n"); err != nil {
		return "", err
	}
	var sb strings.Builder
	hard := time.NewTimer(time.Duration(s.timeoutMs)*time.Millisecond*2 + 20*time.Second)
	defer hard.Stop()
	for {
		var line string
		var ok bool
		select {
		case line, ok = <-s.lines:
		case <-hard.C:
			return sb.String(), fmt.Errorf("solver exceeded the hard time limit")
		}
		if !ok {
			return sb.String(), fmt.Errorf("solver died: %s", sb.String())
		}
		if strings.Contains(line, doneMarker) {
			break
		}
		sb.WriteString(line)
	}
	if s.dump != nil {
		fmt.Fprintln(s.dump, "; -> "+strings.ReplaceAll(strings.TrimSpace(sb.String()), "\n", "\n; "))
	}
	return sb.String(), nil
}

// ModelVal is a value read back from a solver model.
type ModelVal struct {
	Sort Sort
	B    bool
	I    int64
	R    *big.Rat // R-model float
	F    float64  // F-model float (also filled from R)
	Alg  bool     // algebraic / unparsable
}

func (m ModelVal) String() string {
	switch m.Sort {
	case SBool:
		return fmt.Sprint(m.B)
	case SInt:
		return fmt.Sprint(m.I)
	}
	if m.R != nil {
		return m.R.RatString()
	}
	return strconv.FormatFloat(m.F, 'g', -1, 64)
}

// Check decides satisfiability of the conjunction of asserts. If sat and wants is non-empty,
// the values of those terms under the model are returned.
func (s *Solver) Check(asserts []*Term, wants []*Term) (res string, vals []ModelVal) {
	res, vals = s.checkOnce(asserts, wants)
	if strings.HasPrefix(res, "error: solver died") {
		// the solver process was lost (killed under memory pressure, broken pipe): it has been restarted, ask once more
		s.Stats.Errors--
		s.Stats.Restarts++
		res, vals = s.checkOnce(asserts, wants)
	}
	return res, vals
}

func (s *Solver) checkOnce(asserts []*Term, wants []*Term) (res string, vals []ModelVal) {
	t0 := time.Now()
	defer func() {
		d := time.Since(t0)
		s.Stats.Time += d
		if d > s.Stats.MaxQuery {
			s.Stats.MaxQuery = d
		}
		s.Stats.Queries++
		switch res {
		case "sat":
			s.Stats.Sat++
		case "unsat":
			s.Stats.Unsat++
		case "unknown":
			s.Stats.Unknown++
		default:
			s.Stats.Errors++
		}
	}()
	si := newSymInfo()
	for _, a := range asserts {
		si.collect(a)
	}
	for _, w := range wants {
		si.collect(w)
	}
	var sb strings.Builder
	// level-0 declarations
	for _, n := range sortedKeys(si.vars) {
		if !s.declared["v"+n] {
			s.declared["v"+n] = true
			fmt.Fprintf(&sb, "(declare-const %s %s)\n", varName(si.vars[n]), s.tb.sortName(si.vars[n].sort))
		}
	}
	for _, n := range sortedKeys(si.ufs) {
		if !s.declared["u"+n] {
			s.declared["u"+n] = true
			fs := s.tb.sortName(SFloat)
			fmt.Fprintf(&sb, "(declare-fun |uf_%s| (%s) %s)\n", n, strings.TrimSpace(strings.Repeat(fs+" ", si.ufs[n])), fs)
		}
	}
	if si.spec {
		for i := 1; i <= 3; i++ {
			n := fmt.Sprintf("$special%d", i)
			if !s.declared[n] {
				s.declared[n] = true
				fmt.Fprintf(&sb, "(declare-const |%s| Real)\n", n)
			}
		}
	}
	sb.WriteString("(push 1)\n")
	for _, a := range asserts {
		if a.IsConst() && a.b {
			continue
		}
		fmt.Fprintf(&sb, "(assert %s)\n", s.tb.Print(a))
	}
	for _, q := range si.sqrts {
		if s.tb.fmode {
			break // fp.sqrt is interpreted
		}
		x := s.tb.Print(q.args[0])
		fmt.Fprintf(&sb, "(assert (>= (rsqrt %s) 0.0))\n(assert (=> (>= %s 0.0) (= (* (rsqrt %s) (rsqrt %s)) %s)))\n", x, x, x, x, x)
	}
	for _, n := range sortedKeys(si.apps) {
		for _, ax := range ufAxioms(s.tb, n, si.apps[n]) {
			fmt.Fprintf(&sb, "(assert %s)\n", ax)
		}
	}
	sb.WriteString("(check-sat)")
	out, err := s.roundTrip(sb.String())
	if err != nil {
		s.restart()
		return "error: " + err.Error(), nil
	}
	res = classify(out)
	if res == "sat" && len(wants) > 0 {
		var gv strings.Builder
		gv.WriteString("(get-value (")
		for _, w := range wants {
			gv.WriteString(s.tb.Print(w))
			gv.WriteString(" ")
		}
		gv.WriteString("))")
		out, err = s.roundTrip(gv.String())
		if err != nil || strings.Contains(out, "(error") {
			s.roundTrip("(pop 1)")
			return "error: get-value: " + out, nil
		}
		vals = parseValues(out, wants, s.tb.fmode)
	}
	if _, err := s.roundTrip("(pop 1)"); err != nil {
		s.restart()
	}
	return res, vals
}

func classify(out string) string {
	if strings.Contains(out, "(error") {
		return "error: " + strings.TrimSpace(out)
	}
	for _, l := range strings.Split(out, "\n") {
		switch strings.TrimSpace(l) {
		case "sat":
			return "sat"
		case "unsat":
			return "unsat"
		case "unknown", "timeout":
			return "unknown"
		}
	}
	return "error: unexpected solver output: " + strings.TrimSpace(out)
}

// ---------- s-expressions ----------

type sexp struct {
	atom string
	list []*sexp
}

func parseSexp(s string) []*sexp {
	pos := 0
	var parse func() *sexp
	skip := func() {
		for pos < len(s) && (s[pos] == ' ' || s[pos] == '\n' || s[pos] == '\t' || s[pos] == '\r') {
			pos++
		}
	}
	parse = func() *sexp {
		skip()
		if pos >= len(s) {
			return nil
		}
		if s[pos] == '(' {
			pos++
			e := &sexp{list: []*sexp{}}
			for {
				skip()
				if pos >= len(s) {
					return e
				}
				if s[pos] == ')' {
					pos++
					return e
				}
				e.list = append(e.list, parse())
			}
		}
		start := pos
		if s[pos] == '|' {
			pos++
			for pos < len(s) && s[pos] != '|' {
				pos++
			}
			pos++
			return &sexp{atom: s[start:pos]}
		}
		if s[pos] == '"' {
			pos++
			for pos < len(s) && s[pos] != '"' {
				pos++
			}
			pos++
			return &sexp{atom: s[start:pos]}
		}
		for pos < len(s) && !strings.ContainsRune(" \n\t\r()", rune(s[pos])) {
			pos++
		}
		return &sexp{atom: s[start:pos]}
	}
	var out []*sexp
	for {
		e := parse()
		if e == nil {
			break
		}
		out = append(out, e)
	}
	return out
}

func (e *sexp) isList() bool { return e.list != nil }

func sexpRat(e *sexp) (*big.Rat, bool) {
	if !e.isList() {
		r, ok := new(big.Rat).SetString(e.atom)
		return r, ok
	}
	if len(e.list) == 0 {
		return nil, false
	}
	switch e.list[0].atom {
	case "-":
		if len(e.list) == 2 {
			r, ok := sexpRat(e.list[1])
			if !ok {
				return nil, false
			}
			return r.Neg(r), true
		}
		if len(e.list) == 3 {
			a, ok1 := sexpRat(e.list[1])
			b, ok2 := sexpRat(e.list[2])
			if ok1 && ok2 {
				return a.Sub(a, b), true
			}
		}
	case "/":
		if len(e.list) == 3 {
			a, ok1 := sexpRat(e.list[1])
			b, ok2 := sexpRat(e.list[2])
			if ok1 && ok2 && b.Sign() != 0 {
				return a.Quo(a, b), true
			}
		}
	case "to_real":
		if len(e.list) == 2 {
			return sexpRat(e.list[1])
		}
	}
	return nil, false
}

func sexpFP(e *sexp) (float64, bool) {
	if !e.isList() || len(e.list) == 0 {
		return 0, false
	}
	if e.list[0].atom == "fp" && len(e.list) == 4 {
		bits := ""
		for _, p := range e.list[1:] {
			a := p.atom
			switch {
			case strings.HasPrefix(a, "#b"):
				bits += a[2:]
			case strings.HasPrefix(a, "#x"):
				for _, c := range a[2:] {
					v, _ := strconv.ParseUint(string(c), 16, 8)
					bits += fmt.Sprintf("%04b", v)
				}
			default:
				return 0, false
			}
		}
		if len(bits) != 64 {
			return 0, false
		}
		u, err := strconv.ParseUint(bits, 2, 64)
		if err != nil {
			return 0, false
		}
		return math.Float64frombits(u), true
	}
	if e.list[0].atom == "_" && len(e.list) >= 2 {
		switch e.list[1].atom {
		case "+zero":
			return 0, true
		case "-zero":
			return math.Copysign(0, -1), true
		case "+oo":
			return math.Inf(1), true
		case "-oo":
			return math.Inf(-1), true
		case "NaN":
			return math.NaN(), true
		}
	}
	return 0, false
}

func parseValues(out string, wants []*Term, fmode bool) []ModelVal {
	es := parseSexp(out)
	vals := make([]ModelVal, len(wants))
	for i := range vals {
		vals[i] = ModelVal{Sort: wants[i].sort, Alg: true}
	}
	if len(es) == 0 || !es[0].isList() {
		return vals
	}
	pairs := es[0].list
	for i := range wants {
		if i >= len(pairs) || !pairs[i].isList() || len(pairs[i].list) != 2 {
			continue
		}
		v := pairs[i].list[1]
		mv := ModelVal{Sort: wants[i].sort}
		switch wants[i].sort {
		case SBool:
			mv.B = v.atom == "true"
		case SInt:
			r, ok := sexpRat(v)
			if !ok || !r.IsInt() {
				mv.Alg = true
			} else {
				mv.I = r.Num().Int64()
			}
		case SFloat:
			if fmode {
				f, ok := sexpFP(v)
				mv.F = f
				mv.Alg = !ok
			} else {
				r, ok := sexpRat(v)
				if !ok {
					mv.Alg = true
				} else {
					mv.R = r
					mv.F, _ = r.Float64()
				}
			}
		}
		vals[i] = mv
	}
	return vals
}
