package main

// Symbolic interpreter for go/ssa. One Interp executes ONE path: it follows the decision prefix it is
// given, takes the first feasible option at every new decision point and hands the alternatives to the
// explorer, which re-executes from the start (stateless exploration: no heap cloning needed).

import (
	"fmt"
	"go/constant"
	"go/token"
	"go/types"
	"math"
	"math/big"
	"sort"
	"strings"

	"golang.org/x/tools/go/ssa"
)

type endKind int

const (
	endOK endKind = iota
	endAssume
	endPanic
	endCut
	endUnsupported
	endBound
)

func (k endKind) String() string {
	return [...]string{"ok", "assume-false", "panic", "cut", "unsupported", "bound-exceeded"}[k]
}

type pathEnd struct {
	kind endKind
	msg  string
}

type Nondet struct {
	T     *Term
	Kind  string // "int","float","bool","choice", "rand.Float64", ...
	Label string
}

type Observation struct {
	Tag string
	T   *Term
}

type Violation struct {
	Msg       string
	Decisions []int
	Script    []ScriptVal
	Kind      string // "assert", "panic", "eqf"
	Observed  []ObservedVal
	Where     string
}

type ScriptVal struct {
	Kind  string  `json:"kind"`
	Label string  `json:"label"`
	I     int64   `json:"i"`
	F     float64 `json:"f"`
	B     bool    `json:"b"`
	Rat   string  `json:"rat,omitempty"`
	Bits  string  `json:"bits,omitempty"`
}

type ObservedVal struct {
	Tag  string  `json:"tag"`
	Val  string  `json:"val"`
	F    float64 `json:"f"`
	I    int64   `json:"i"`
	B    bool    `json:"b"`
	Sort string  `json:"sort"`
	UF   bool    `json:"depends_on_uninterpreted,omitempty"`
}

type frame struct {
	fn     *ssa.Function
	env    map[ssa.Value]Value
	defers []func()
	free   []Value
}

type Interp struct {
	w    *Worker
	tb   *TB
	prog *ssa.Program
	cfg  *Config

	pc        []*Term
	prefix    []int
	pos       int
	decisions []int
	spawn     func(prefix []int)

	globals       map[*ssa.Global]*Object
	nobj          int
	nondets       []Nondet
	reached       map[string]int
	observes      []Observation
	asserts       map[string]int // message -> times checked on this path
	viols         []*Violation
	notes         map[string]int
	cuts          map[string]int
	steps         int
	depth         int
	branches      int
	ndSrc         int // nondeterminism sources consumed (map range order, time, ...)
	funcsHit      map[*ssa.Function]bool
	loopCnt       map[*ssa.BasicBlock]int
	access        *accessLog
	ovf           []*Term
	unknownFeas   int
	specDepth     int
	specRoot      *ssa.BasicBlock
	parRuns       []parRun
	goThreads     []*ThreadTrace // go-statement mode: main thread + one trace per go statement
	wgCount       map[string]int
	pools         map[string][]Value
	randSameOn    bool
	randSameFirst *Term
	randReplay    []Nondet
	randPos       int
	model         Model
	evalSkips     int
	merges        int
	mergeAborts   int
	harnessState  map[string]Value
}

func (in *Interp) note(s string) { in.notes[s]++ }

func (in *Interp) unsupported(format string, a ...interface{}) {
	panic(pathEnd{endUnsupported, fmt.Sprintf(format, a...)})
}

func (in *Interp) goPanic(format string, a ...interface{}) {
	panic(pathEnd{endPanic, fmt.Sprintf(format, a...)})
}

// ---------- decisions ----------

func (in *Interp) addPC(c *Term) {
	if c.IsConst() && c.b {
		return
	}
	if in.model != nil {
		if v, ok := in.tb.eval(c, in.model, map[*Term]evalVal{}); !ok || !v.b {
			in.model = nil
		}
	}
	in.pc = append(in.pc, c)
}

func (in *Interp) nondetTerms() []*Term {
	ts := make([]*Term, len(in.nondets))
	for i, n := range in.nondets {
		ts[i] = n.T
	}
	return ts
}

// feasibleM decides whether PC ∧ c is satisfiable and returns a model of it when one is at hand.
func (in *Interp) feasibleM(c *Term) (bool, Model) {
	if c.IsConst() {
		return c.b, in.model
	}
	if in.model != nil && !in.cfg.NoEvalSkip {
		if v, ok := in.tb.eval(c, in.model, map[*Term]evalVal{}); ok && v.b {
			in.evalSkips++
			return true, in.model
		}
	}
	ts := in.nondetTerms()
	res, vals := in.w.check(append(append([]*Term{}, in.pc...), c), ts)
	switch res {
	case "sat":
		return true, modelFromVals(ts, vals, in.tb.fmode)
	case "unsat":
		return false, nil
	}
	in.unknownFeas++
	in.note("feasibility unknown (kept): " + trunc(res, 60))
	return true, nil
}

func (in *Interp) feasible(c *Term) bool {
	f, m := in.feasibleM(c)
	if f && m != nil {
		in.model = m
	}
	return f
}

// branch decides a symbolic condition, forking if both outcomes are feasible.
func (in *Interp) branch(c *Term) bool {
	if c.IsConst() {
		return c.b
	}
	if in.specDepth > 0 {
		panic(specAbort{"decision"})
	}
	in.branches++
	if in.pos < len(in.prefix) {
		d := in.prefix[in.pos]
		in.pos++
		in.decisions = append(in.decisions, d)
		if d == 1 {
			in.addPC(c)
		} else {
			in.addPC(in.tb.Not(c))
		}
		return d == 1
	}
	in.pos++
	nc := in.tb.Not(c)
	fc, mc := in.feasibleM(c)
	if !fc {
		in.decisions = append(in.decisions, 0)
		in.addPC(nc)
		return false
	}
	if fn, _ := in.feasibleM(nc); fn {
		alt := append(append([]int{}, in.decisions...), 0)
		in.spawn(alt)
	}
	in.decisions = append(in.decisions, 1)
	if mc != nil {
		in.model = mc
	}
	in.addPC(c)
	return true
}

// choose forks n ways without consulting the solver.
func (in *Interp) choose(n int) int {
	if n <= 0 {
		panic(pathEnd{endAssume, "choice over empty range"})
	}
	if n == 1 {
		return 0
	}
	if in.specDepth > 0 {
		panic(specAbort{"decision"})
	}
	if in.pos < len(in.prefix) {
		d := in.prefix[in.pos]
		in.pos++
		in.decisions = append(in.decisions, d)
		return d
	}
	in.pos++
	for k := 1; k < n; k++ {
		in.spawn(append(append([]int{}, in.decisions...), k))
	}
	in.decisions = append(in.decisions, 0)
	return 0
}

// concretize forks over all feasible integer values of t.
func (in *Interp) concretize(t *Term, what string) int64 {
	if t.IsConst() {
		return t.i
	}
	if in.specDepth > 0 {
		panic(specAbort{"decision"})
	}
	if in.pos < len(in.prefix) {
		d := in.prefix[in.pos]
		in.pos++
		in.decisions = append(in.decisions, d)
		in.addPC(in.tb.Eq(t, in.tb.Int(int64(d))))
		return int64(d)
	}
	in.pos++
	var vals []int64
	cons := append([]*Term{}, in.pc...)
	for {
		res, mv := in.w.check(cons, []*Term{t})
		if res == "unsat" {
			break
		}
		if res != "sat" || mv[0].Alg {
			in.unsupported("cannot enumerate values of %s (%s): %s", what, t, res)
		}
		vals = append(vals, mv[0].I)
		cons = append(cons, in.tb.Ne(t, in.tb.Int(mv[0].I)))
		if len(vals) > in.cfg.MaxEnum {
			in.unsupported("more than %d feasible values for %s", in.cfg.MaxEnum, what)
		}
	}
	if len(vals) == 0 {
		panic(pathEnd{endAssume, "infeasible path at concretization"})
	}
	sort.Slice(vals, func(i, j int) bool { return vals[i] < vals[j] })
	for _, v := range vals[1:] {
		in.spawn(append(append([]int{}, in.decisions...), int(v)))
	}
	in.decisions = append(in.decisions, int(vals[0]))
	in.addPC(in.tb.Eq(t, in.tb.Int(vals[0])))
	return vals[0]
}

func (in *Interp) newNondet(kind, label string, s Sort) *Term {
	if in.specDepth > 0 {
		panic(specAbort{"nondet"})
	}
	if in.randReplay != nil && strings.HasPrefix(kind, "rand.") {
		// second run of a self-composition: the same seeded stream is consumed again
		for in.randPos < len(in.randReplay) && !strings.HasPrefix(in.randReplay[in.randPos].Kind, "rand.") {
			in.randPos++
		}
		if in.randPos >= len(in.randReplay) {
			// the second run draws more values than the first: continue with fresh ones
			in.randReplay = nil
		} else {
			n := in.randReplay[in.randPos]
			in.randPos++
			if n.Kind != kind {
				panic(pathEnd{endAssume, "self-composition: the two runs consume the random stream differently (" + n.Kind + " vs " + kind + ")"})
			}
			return n.T
		}
	}
	name := fmt.Sprintf("%s#%d", label, len(in.nondets))
	t := in.tb.Var(name, s)
	in.nondets = append(in.nondets, Nondet{T: t, Kind: kind, Label: label})
	if in.model != nil {
		in.model[t] = evalVal{r: new(big.Rat)}
	}
	return t
}

// ---------- assertions ----------

func (in *Interp) modelScript(extra []*Term) (string, []ScriptVal, []ObservedVal) {
	wants := make([]*Term, 0, len(in.nondets)+len(in.observes))
	for _, n := range in.nondets {
		wants = append(wants, n.T)
	}
	for _, o := range in.observes {
		wants = append(wants, o.T)
	}
	cons := append(append([]*Term{}, in.pc...), extra...)
	res, vals := in.w.check(cons, wants)
	if res != "sat" {
		return res, nil, nil
	}
	script := make([]ScriptVal, len(in.nondets))
	for i, n := range in.nondets {
		sv := ScriptVal{Kind: n.Kind, Label: n.Label}
		mv := vals[i]
		switch n.T.sort {
		case SBool:
			sv.B = mv.B
		case SInt:
			sv.I = mv.I
		case SFloat:
			sv.F = mv.F
			if math.IsNaN(mv.F) || math.IsInf(mv.F, 0) || (mv.F == 0 && math.Signbit(mv.F)) {
				sv.Bits = fmt.Sprintf("%x", math.Float64bits(mv.F))
				sv.F = 0
			}
			if mv.R != nil {
				sv.Rat = mv.R.RatString()
			}
			if mv.Alg {
				sv.Rat = "algebraic"
			}
		}
		script[i] = sv
	}
	obs := make([]ObservedVal, len(in.observes))
	for i, o := range in.observes {
		mv := vals[len(in.nondets)+i]
		obs[i] = ObservedVal{Tag: o.Tag, Val: mv.String(), F: sanitize(mv.F), I: mv.I, B: mv.B, Sort: o.T.sort.String(), UF: hasUF(o.T, map[*Term]bool{})}
	}
	return "sat", script, obs
}

func (in *Interp) assert(c *Term, msg, kind string, where string) {
	if in.specDepth > 0 {
		panic(specAbort{"assert"})
	}
	in.asserts[msg]++
	if c.IsConst() && c.b {
		in.w.stats.Obligations++
		in.w.stats.Discharged++
		return
	}
	in.w.stats.Obligations++
	nc := in.tb.Not(c)
	var res string
	var script []ScriptVal
	var obs []ObservedVal
	if c.IsConst() {
		res, script, obs = in.modelScript(nil)
	} else {
		res, script, obs = in.modelScript([]*Term{nc})
	}
	switch res {
	case "unsat":
		in.w.stats.Discharged++
		return
	case "sat":
		v := &Violation{Msg: msg, Decisions: append([]int{}, in.decisions...), Script: script, Kind: kind, Observed: obs, Where: where}
		in.viols = append(in.viols, v)
		// continue under the assumption that the assertion holds, if possible
		if c.IsConst() || !in.feasible(c) {
			panic(pathEnd{endAssume, "assertion can never hold beyond this point"})
		}
		in.addPC(c)
	default:
		in.w.stats.Inconclusive = append(in.w.stats.Inconclusive, fmt.Sprintf("assert %q: %s", msg, trunc(res, 200)))
		in.addPC(c)
	}
}

func trunc(s string, n int) string {
	s = strings.ReplaceAll(s, "\n", " ")
	if len(s) > n {
		return s[:n] + "..."
	}
	return s
}

// ---------- types / zero values ----------

func isFloatT(t types.Type) bool {
	b, ok := t.Underlying().(*types.Basic)
	return ok && b.Info()&types.IsFloat != 0
}
func isIntT(t types.Type) bool {
	b, ok := t.Underlying().(*types.Basic)
	return ok && b.Info()&types.IsInteger != 0
}
func isBoolT(t types.Type) bool {
	b, ok := t.Underlying().(*types.Basic)
	return ok && b.Info()&types.IsBoolean != 0
}
func isStringT(t types.Type) bool {
	b, ok := t.Underlying().(*types.Basic)
	return ok && b.Info()&types.IsString != 0
}

func (in *Interp) zero(t types.Type) Value {
	switch u := t.Underlying().(type) {
	case *types.Basic:
		switch {
		case u.Info()&types.IsBoolean != 0:
			return in.tb.fls
		case u.Info()&types.IsInteger != 0:
			return in.tb.Int(0)
		case u.Info()&types.IsFloat != 0:
			return in.tb.Float(0)
		case u.Info()&types.IsString != 0:
			return ""
		case u.Kind() == types.UnsafePointer:
			return Ptr{}
		case u.Kind() == types.UntypedNil:
			return Ptr{}
		}
		in.unsupported("zero value of basic type %s", t)
	case *types.Pointer:
		return Ptr{}
	case *types.Slice:
		return SliceV{}
	case *types.Map:
		return (*MapV)(nil)
	case *types.Chan:
		return (*ChanV)(nil)
	case *types.Signature:
		return (*Closure)(nil)
	case *types.Interface:
		return Iface{}
	case *types.Struct:
		s := &StructV{f: make([]Value, u.NumFields())}
		for i := range s.f {
			s.f[i] = in.zero(u.Field(i).Type())
		}
		return s
	case *types.Array:
		a := &ArrayV{e: make([]Value, u.Len())}
		for i := range a.e {
			a.e[i] = in.zero(u.Elem())
		}
		return a
	case *types.Tuple:
		tp := make(Tuple, u.Len())
		for i := range tp {
			tp[i] = in.zero(u.At(i).Type())
		}
		return tp
	}
	in.unsupported("zero value of type %s", t)
	return nil
}

func (in *Interp) newObject(t types.Type, v Value, label string) *Object {
	in.nobj++
	return &Object{id: in.nobj, v: v, typ: t, label: label}
}

func (in *Interp) globalObj(g *ssa.Global) *Object {
	if o, ok := in.globals[g]; ok {
		return o
	}
	et := g.Type().(*types.Pointer).Elem()
	o := in.newObject(et, in.zero(et), "global "+g.String())
	in.globals[g] = o
	if g.Pkg != nil && !in.cfg.initPkg(g.Pkg.Pkg.Path()) && types.Identical(et, types.Universe.Lookup("error").Type()) {
		// sentinel errors of packages whose init is not executed (context.Canceled, io.EOF, ...): distinct non-nil values
		o.v = in.newError(Opaque{"sentinel " + g.String()})
	}
	return o
}

func (in *Interp) constVal(c *ssa.Const) Value {
	if c.Value == nil {
		return in.zero(c.Type())
	}
	t := c.Type()
	if b, ok := t.Underlying().(*types.Basic); ok {
		switch {
		case b.Info()&types.IsBoolean != 0:
			return in.tb.Bool(constant.BoolVal(c.Value))
		case b.Info()&types.IsString != 0:
			return constant.StringVal(c.Value)
		case b.Info()&types.IsInteger != 0:
			v := constant.ToInt(c.Value)
			if i, ok := constant.Int64Val(v); ok {
				return in.tb.Int(i)
			}
			u, _ := constant.Uint64Val(v)
			return in.tb.Int(int64(u))
		case b.Info()&types.IsFloat != 0:
			f, _ := constant.Float64Val(c.Value)
			if b.Kind() == types.Float32 {
				f = float64(float32(f))
			}
			return in.tb.Float(f)
		}
	}
	in.unsupported("constant of type %s", t)
	return nil
}

func (in *Interp) get(fr *frame, v ssa.Value) Value {
	switch x := v.(type) {
	case *ssa.Const:
		return in.constVal(x)
	case *ssa.Global:
		return Ptr{obj: in.globalObj(x)}
	case *ssa.Function:
		return x
	case *ssa.Builtin:
		return x
	}
	r, ok := fr.env[v]
	if !ok {
		panic(fmt.Sprintf("no value for %s (%T) in %s", v.Name(), v, fr.fn))
	}
	return r
}

func (in *Interp) term(v Value, what string) *Term {
	t, ok := v.(*Term)
	if !ok {
		if o, isO := v.(Opaque); isO {
			in.unsupported("opaque value (%s) used as scalar in %s", o.why, what)
		}
		panic(fmt.Sprintf("expected scalar term in %s, got %T", what, v))
	}
	return t
}

func (in *Interp) concreteInt(v Value, what string) int {
	return int(in.concretize(in.term(v, what), what))
}

// ---------- calls ----------

func (in *Interp) callValue(fv Value, args []Value, site string) Value {
	switch f := fv.(type) {
	case *ssa.Function:
		return in.callFn(f, args, nil)
	case *Closure:
		if f == nil {
			in.goPanic("call of nil function at %s", site)
		}
		return in.callFn(f.fn, args, f.free)
	case *ssa.Builtin:
		in.unsupported("indirect call of builtin %s", f.Name())
	}
	in.unsupported("call of non-function value %T at %s", fv, site)
	return nil
}

func (in *Interp) lookupMethod(t types.Type, m *types.Func) *ssa.Function {
	fn := in.prog.LookupMethod(t, m.Pkg(), m.Name())
	if fn == nil {
		in.unsupported("method %s not found on %s", m.Name(), t)
	}
	return fn
}

func (in *Interp) callFn(fn *ssa.Function, args []Value, free []Value) (ret Value) {
	if rd, ok := in.cfg.redirects[fn.String()]; ok {
		fn = rd
		if in.access != nil && in.access.cur != nil {
			// a redirect target stands for library behaviour (e.g. the gob pass-through): its private bookkeeping
			// is not memory of the program under test and stays out of the access traces
			cur := in.access.cur
			in.access.cur = nil
			defer func() { in.access.cur = cur }()
		}
	}
	if h, ok := intrinsics[fn.String()]; ok {
		return h(in, fn, args)
	}
	if fn.Blocks == nil {
		if h := harnessIntrinsic(fn); h != nil {
			return h(in, fn, args)
		}
		if fn.Synthetic != "" || fn.Pkg == nil {
			// e.g. generic instantiation or wrapper not yet built
		}
		in.unsupported("call of external function %s", fn.String())
	}
	if fn.Name() == "init" && fn.Pkg != nil && fn.Signature.Recv() == nil && !in.cfg.initPkg(fn.Pkg.Pkg.Path()) {
		return nil
	}
	if in.specDepth > 0 {
		panic(specAbort{"interpreted call"})
	}
	in.depth++
	if in.depth > in.cfg.MaxDepth {
		panic(pathEnd{endBound, "call depth exceeded in " + fn.String()})
	}
	defer func() { in.depth-- }()
	in.funcsHit[fn] = true
	fr := &frame{fn: fn, env: make(map[ssa.Value]Value, 32), free: free}
	for i, p := range fn.Params {
		fr.env[p] = args[i]
	}
	for i, fv := range fn.FreeVars {
		fr.env[fv] = free[i]
	}
	var prev *ssa.BasicBlock
	block := fn.Blocks[0]
	merged := false
	var loopCnt map[*ssa.BasicBlock]int
	for {
		// phis first (parallel assignment)
		nphi := 0
		var phiVals []Value
		for _, instr := range block.Instrs {
			phi, ok := instr.(*ssa.Phi)
			if !ok {
				break
			}
			if merged {
				nphi++
				continue
			}
			idx := -1
			for i, p := range block.Preds {
				if p == prev {
					idx = i
					break
				}
			}
			phiVals = append(phiVals, in.get(fr, phi.Edges[idx]))
			nphi++
		}
		if !merged {
			for i := 0; i < nphi; i++ {
				fr.env[block.Instrs[i].(*ssa.Phi)] = phiVals[i]
			}
		}
		merged = false
		var next *ssa.BasicBlock
		for _, instr := range block.Instrs[nphi:] {
			in.steps++
			if in.steps > in.cfg.MaxSteps {
				panic(pathEnd{endBound, "step bound exceeded"})
			}
			switch x := instr.(type) {
			case *ssa.If:
				c := in.term(in.get(fr, x.Cond), "if")
				if !c.IsConst() {
					if j, ok := in.tryMerge(fr, block, c); ok {
						next, merged = j, true
						break
					}
				}
				taken := in.branch(c)
				if !c.IsConst() && strings.HasSuffix(block.Comment, ".loop") {
					// unwinding bound (with unwinding assertion) for loops whose continuation test is symbolic
					if loopCnt == nil {
						loopCnt = map[*ssa.BasicBlock]int{}
					}
					loopCnt[block]++
					if loopCnt[block] > in.cfg.Unwind {
						panic(pathEnd{endBound, fmt.Sprintf("loop with symbolic continuation test in %s (block %d %s, %s) iterated more than %d times", fn.Name(), block.Index, block.Comment, in.prog.Fset.Position(fn.Pos()), in.cfg.Unwind)})
					}
				}
				if taken {
					next = block.Succs[0]
				} else {
					next = block.Succs[1]
				}
			case *ssa.Jump:
				next = block.Succs[0]
			case *ssa.Return:
				in.runDefers(fr)
				switch len(x.Results) {
				case 0:
					return nil
				case 1:
					return in.get(fr, x.Results[0])
				}
				tp := make(Tuple, len(x.Results))
				for i, r := range x.Results {
					tp[i] = in.get(fr, r)
				}
				return tp
			case *ssa.Panic:
				v := in.get(fr, x.X)
				msg := "panic"
				if ifc, ok := v.(Iface); ok {
					if s, ok := ifc.v.(string); ok {
						msg = "panic: " + s
					}
				}
				in.goPanic("%s at %s", msg, in.prog.Fset.Position(x.Pos()))
			case *ssa.RunDefers:
				in.runDefers(fr)
			default:
				in.exec(fr, instr)
			}
		}
		prev, block = block, next
	}
}

func (in *Interp) runDefers(fr *frame) {
	for len(fr.defers) > 0 {
		d := fr.defers[len(fr.defers)-1]
		fr.defers = fr.defers[:len(fr.defers)-1]
		d()
	}
}

func (in *Interp) at(i ssa.Instruction) string {
	return in.prog.Fset.Position(i.Pos()).String()
}

func (in *Interp) prepareCall(fr *frame, c *ssa.CallCommon, site string) func() Value {
	args := make([]Value, 0, len(c.Args)+1)
	if c.IsInvoke() {
		recv := in.get(fr, c.Value)
		ifc, ok := recv.(Iface)
		if !ok {
			if o, isO := recv.(Opaque); isO {
				in.unsupported("method call on opaque value (%s) at %s", o.why, site)
			}
			panic(fmt.Sprintf("invoke on %T", recv))
		}
		if ifc.t == nil {
			in.goPanic("nil interface method call %s at %s", c.Method.Name(), site)
		}
		fn := in.lookupMethod(ifc.t, c.Method)
		args = append(args, ifc.v)
		for _, a := range c.Args {
			args = append(args, in.get(fr, a))
		}
		return func() Value { return in.callFn(fn, args, nil) }
	}
	for _, a := range c.Args {
		args = append(args, in.get(fr, a))
	}
	if b, ok := c.Value.(*ssa.Builtin); ok {
		return func() Value { return in.builtin(b, args, c, site) }
	}
	fv := in.get(fr, c.Value)
	return func() Value { return in.callValue(fv, args, site) }
}

// ---------- instructions ----------

func (in *Interp) exec(fr *frame, instr ssa.Instruction) {
	switch x := instr.(type) {
	case *ssa.Alloc:
		et := x.Type().(*types.Pointer).Elem()
		o := in.newObject(et, in.zero(et), x.Comment)
		fr.env[x] = Ptr{obj: o}
	case *ssa.UnOp:
		fr.env[x] = in.unop(fr, x)
	case *ssa.BinOp:
		fr.env[x] = in.binop(x.Op, in.get(fr, x.X), in.get(fr, x.Y), x.X.Type(), in.at(x))
	case *ssa.Store:
		p := in.ptr(in.get(fr, x.Addr), in.at(x))
		v := in.get(fr, x.Val)
		if in.access != nil {
			in.access.record(p, true, in.at(x))
		}
		p.store(v)
	case *ssa.Call:
		fr.env[x] = in.prepareCall(fr, &x.Call, in.at(x))()
	case *ssa.Defer:
		f := in.prepareCall(fr, &x.Call, in.at(x))
		fr.defers = append(fr.defers, func() { f() })
	case *ssa.Go:
		if in.cfg.GoThreads {
			in.goStmt(fr, x)
		} else if in.cfg.GoInline {
			in.ndSrc++
			in.prepareCall(fr, &x.Call, in.at(x))()
		} else {
			in.unsupported("go statement at %s", in.at(x))
		}
	case *ssa.FieldAddr:
		p := in.ptr(in.get(fr, x.X), in.at(x))
		fr.env[x] = p.sub(x.Field)
	case *ssa.Field:
		s := in.get(fr, x.X).(*StructV)
		fr.env[x] = s.f[x.Field]
	case *ssa.IndexAddr:
		base := in.get(fr, x.X)
		idx := in.get(fr, x.Index)
		switch b := base.(type) {
		case SliceV:
			i := in.concreteInt(idx, "slice index")
			if i < 0 || i >= b.length {
				in.goPanic("index out of range [%d] with length %d at %s", i, b.length, in.at(x))
			}
			fr.env[x] = b.at(i)
		case Ptr: // *array
			if b.isNil() {
				in.goPanic("nil array pointer at %s", in.at(x))
			}
			i := in.concreteInt(idx, "array index")
			n := len((*b.cell()).(*ArrayV).e)
			if i < 0 || i >= n {
				in.goPanic("index out of range [%d] with length %d at %s", i, n, in.at(x))
			}
			fr.env[x] = b.sub(i)
		default:
			in.unsupported("IndexAddr on %T", base)
		}
	case *ssa.Index:
		base := in.get(fr, x.X)
		idx := in.get(fr, x.Index)
		switch b := base.(type) {
		case *ArrayV:
			i := in.concreteInt(idx, "array index")
			if i < 0 || i >= len(b.e) {
				in.goPanic("index out of range at %s", in.at(x))
			}
			fr.env[x] = b.e[i]
		case string:
			i := in.concreteInt(idx, "string index")
			if i < 0 || i >= len(b) {
				in.goPanic("string index out of range at %s", in.at(x))
			}
			fr.env[x] = in.tb.Int(int64(b[i]))
		default:
			in.unsupported("Index on %T", base)
		}
	case *ssa.Lookup:
		fr.env[x] = in.lookup(fr, x)
	case *ssa.MapUpdate:
		m := in.get(fr, x.Map).(*MapV)
		if m == nil {
			in.goPanic("assignment to entry in nil map at %s", in.at(x))
		}
		in.mapUpdate(m, in.get(fr, x.Key), copyVal(in.get(fr, x.Value)))
	case *ssa.MakeMap:
		in.nobj++
		fr.env[x] = &MapV{id: in.nobj, typ: x.Type().Underlying().(*types.Map)}
	case *ssa.MakeSlice:
		n := in.concreteInt(in.get(fr, x.Len), "make len")
		c := in.concreteInt(in.get(fr, x.Cap), "make cap")
		if n < 0 || c < n {
			in.goPanic("makeslice: len out of range at %s", in.at(x))
		}
		et := x.Type().Underlying().(*types.Slice).Elem()
		fr.env[x] = in.makeSlice(et, n, c)
	case *ssa.MakeChan:
		in.nobj++
		sz := in.term(in.get(fr, x.Size), "make(chan)")
		if !sz.IsConst() {
			sz = in.tb.Int(int64(in.concretize(sz, "channel capacity")))
		}
		fr.env[x] = &ChanV{id: in.nobj, closed: in.tb.fls, cap: int(sz.i)}
	case *ssa.MakeClosure:
		cl := &Closure{fn: x.Fn.(*ssa.Function)}
		for _, b := range x.Bindings {
			cl.free = append(cl.free, in.get(fr, b))
		}
		fr.env[x] = cl
	case *ssa.MakeInterface:
		fr.env[x] = Iface{t: x.X.Type(), v: copyVal(in.get(fr, x.X))}
	case *ssa.ChangeInterface:
		fr.env[x] = in.get(fr, x.X)
	case *ssa.ChangeType:
		fr.env[x] = in.get(fr, x.X)
	case *ssa.Convert:
		fr.env[x] = in.convert(in.get(fr, x.X), x.X.Type(), x.Type(), in.at(x))
	case *ssa.Extract:
		fr.env[x] = in.get(fr, x.Tuple).(Tuple)[x.Index]
	case *ssa.Slice:
		fr.env[x] = in.sliceOp(fr, x)
	case *ssa.TypeAssert:
		fr.env[x] = in.typeAssert(fr, x)
	case *ssa.Range:
		fr.env[x] = in.rangeOp(in.get(fr, x.X))
	case *ssa.Next:
		fr.env[x] = in.nextOp(in.get(fr, x.Iter).(*MapIter), x)
	case *ssa.Select:
		fr.env[x] = in.selectOp(fr, x)
	case *ssa.Send:
		ch, _ := in.get(fr, x.Chan).(*ChanV)
		if ch == nil || !in.cfg.GoThreads {
			in.unsupported("channel send at %s", in.at(x))
		}
		if ch.closed.IsConst() && ch.closed.b {
			in.goPanic("send on closed channel at %s", in.at(x))
		}
		if len(ch.buf) >= ch.cap {
			in.unsupported("channel send beyond the capacity would block (threads run to completion) at %s", in.at(x))
		}
		ch.buf = append(ch.buf, copyVal(in.get(fr, x.X)))
		if in.access != nil {
			in.access.syncEvent("chsend", fmt.Sprintf("chan%d", ch.id), in.at(x), ch.sent)
		}
		ch.sent++
	case *ssa.DebugRef:
	case *ssa.SliceToArrayPointer:
		in.unsupported("slice to array pointer")
	default:
		in.unsupported("instruction %T at %s", instr, in.at(instr))
	}
}

func (in *Interp) ptr(v Value, site string) Ptr {
	p, ok := v.(Ptr)
	if !ok {
		if o, isO := v.(Opaque); isO {
			in.unsupported("dereference of opaque value (%s) at %s", o.why, site)
		}
		panic(fmt.Sprintf("expected pointer, got %T at %s", v, site))
	}
	if p.isNil() {
		in.goPanic("nil pointer dereference at %s", site)
	}
	return p
}

func (in *Interp) makeSlice(et types.Type, n, c int) SliceV {
	arr := &ArrayV{e: make([]Value, c)}
	for i := range arr.e {
		arr.e[i] = in.zero(et)
	}
	o := in.newObject(types.NewArray(et, int64(c)), arr, "makeslice")
	return SliceV{arr: o, off: 0, length: n, capacity: c}
}

func (in *Interp) unop(fr *frame, x *ssa.UnOp) Value {
	v := in.get(fr, x.X)
	switch x.Op {
	case token.MUL:
		p := in.ptr(v, in.at(x))
		if in.access != nil {
			in.access.record(p, false, in.at(x))
		}
		return p.load()
	case token.SUB:
		return in.tb.Neg(in.term(v, "negation"))
	case token.NOT:
		return in.tb.Not(in.term(v, "not"))
	case token.XOR:
		t := in.term(v, "complement")
		if t.IsConst() {
			return in.tb.Int(^t.i)
		}
		in.unsupported("bitwise complement of symbolic value")
	case token.ARROW:
		ch, _ := v.(*ChanV)
		if ch == nil {
			in.unsupported("receive from nil/unknown channel at %s", in.at(x))
		}
		if len(ch.buf) > 0 {
			v := ch.buf[0]
			ch.buf = ch.buf[1:]
			if in.access != nil {
				in.access.syncEvent("chrecv", fmt.Sprintf("chan%d", ch.id), in.at(x), ch.rcvd)
			}
			ch.rcvd++
			if x.CommaOk {
				return Tuple{v, in.tb.tru}
			}
			return v
		}
		c := in.pollChan(ch)
		if in.access != nil && c.IsConst() && c.b {
			in.access.syncEvent("chrecv", fmt.Sprintf("chan%d", ch.id), in.at(x), -1)
		}
		if in.branch(c) {
			zv := in.zero(x.X.Type().Underlying().(*types.Chan).Elem())
			if x.CommaOk {
				return Tuple{zv, in.tb.fls}
			}
			return zv
		}
		panic(pathEnd{endCut, "blocking receive on a channel that is never closed"})
	}
	in.unsupported("unary op %s", x.Op)
	return nil
}

func (in *Interp) valuesEqual(a, b Value, site string) *Term {
	switch x := a.(type) {
	case *Term:
		return in.tb.Eq(x, in.term(b, "=="))
	case string:
		y, ok := b.(string)
		if !ok {
			in.unsupported("string compared with %T at %s", b, site)
		}
		return in.tb.Bool(x == y)
	case Ptr:
		y, ok := b.(Ptr)
		if !ok {
			in.unsupported("pointer compared with %T at %s", b, site)
		}
		return in.tb.Bool(ptrEq(x, y))
	case Iface:
		y, ok := b.(Iface)
		if !ok {
			in.unsupported("interface compared with %T at %s", b, site)
		}
		if x.t == nil || y.t == nil {
			return in.tb.Bool(x.t == nil && y.t == nil)
		}
		if !types.Identical(x.t, y.t) {
			return in.tb.fls
		}
		return in.valuesEqual(x.v, y.v, site)
	case *StructV:
		y := b.(*StructV)
		r := in.tb.tru
		for i := range x.f {
			r = in.tb.And(r, in.valuesEqual(x.f[i], y.f[i], site))
		}
		return r
	case *ArrayV:
		y := b.(*ArrayV)
		r := in.tb.tru
		for i := range x.e {
			r = in.tb.And(r, in.valuesEqual(x.e[i], y.e[i], site))
		}
		return r
	case SliceV:
		y, ok := b.(SliceV)
		if ok && (x.arr == nil || y.arr == nil) {
			return in.tb.Bool(x.arr == nil && y.arr == nil)
		}
	case *MapV:
		y, ok := b.(*MapV)
		if ok && (x == nil || y == nil) {
			return in.tb.Bool(x == nil && y == nil)
		}
		if ok {
			return in.tb.Bool(x == y)
		}
	case *Closure:
		y, ok := b.(*Closure)
		if ok && (x == nil || y == nil) {
			return in.tb.Bool(x == nil && y == nil)
		}
	case *ssa.Function:
		if y, ok := b.(*Closure); ok && y == nil {
			return in.tb.fls
		}
	case *ChanV:
		y, ok := b.(*ChanV)
		if ok {
			return in.tb.Bool(x == y)
		}
	case Opaque:
		in.unsupported("comparison of opaque value (%s) at %s", x.why, site)
	}
	if _, ok := b.(*ssa.Function); ok {
		if y, ok := a.(*Closure); ok && y == nil {
			return in.tb.fls
		}
	}
	in.unsupported("comparison of %T and %T at %s", a, b, site)
	return nil
}

func (in *Interp) binop(op token.Token, a, b Value, xt types.Type, site string) Value {
	tb := in.tb
	switch op {
	case token.EQL:
		return in.valuesEqual(a, b, site)
	case token.NEQ:
		return tb.Not(in.valuesEqual(a, b, site))
	}
	if s, ok := a.(string); ok {
		t, ok2 := b.(string)
		if !ok2 {
			if _, isO := b.(Opaque); isO && op == token.ADD {
				return b
			}
			in.unsupported("string op with %T at %s", b, site)
		}
		switch op {
		case token.ADD:
			return s + t
		case token.LSS:
			return tb.Bool(s < t)
		case token.LEQ:
			return tb.Bool(s <= t)
		case token.GTR:
			return tb.Bool(s > t)
		case token.GEQ:
			return tb.Bool(s >= t)
		}
	}
	if o, ok := a.(Opaque); ok {
		if op == token.ADD {
			return o
		}
		in.unsupported("operation %s on opaque value (%s) at %s", op, o.why, site)
	}
	x := in.term(a, "binop "+op.String()+" at "+site)
	y := in.term(b, "binop "+op.String()+" at "+site)
	if x.sort == SBool {
		switch op {
		case token.AND, token.LAND:
			return tb.And(x, y)
		case token.OR, token.LOR:
			return tb.Or(x, y)
		}
		in.unsupported("bool op %s", op)
	}
	switch op {
	case token.ADD:
		r := tb.Add(x, y)
		in.trackOvf(r)
		return r
	case token.SUB:
		r := tb.Sub(x, y)
		in.trackOvf(r)
		return r
	case token.MUL:
		r := tb.Mul(x, y)
		in.trackOvf(r)
		return r
	case token.QUO:
		if x.sort == SInt {
			if in.branch(tb.Eq(y, tb.Int(0))) {
				in.goPanic("integer divide by zero at %s", site)
			}
		}
		return tb.Div(x, y)
	case token.REM:
		if in.branch(tb.Eq(y, tb.Int(0))) {
			in.goPanic("integer divide by zero at %s", site)
		}
		return tb.Rem(x, y)
	case token.LSS:
		return tb.Lt(x, y)
	case token.LEQ:
		return tb.Le(x, y)
	case token.GTR:
		return tb.Lt(y, x)
	case token.GEQ:
		return tb.Le(y, x)
	}
	// bit operations: constants only
	if x.IsConst() && y.IsConst() && x.sort == SInt {
		switch op {
		case token.AND:
			return tb.Int(x.i & y.i)
		case token.OR:
			return tb.Int(x.i | y.i)
		case token.XOR:
			return tb.Int(x.i ^ y.i)
		case token.SHL:
			return tb.Int(x.i << uint64(y.i))
		case token.SHR:
			if b, ok := xt.Underlying().(*types.Basic); ok && b.Info()&types.IsUnsigned != 0 {
				return tb.Int(int64(uint64(x.i) >> uint64(y.i)))
			}
			return tb.Int(x.i >> uint64(y.i))
		case token.AND_NOT:
			return tb.Int(x.i &^ y.i)
		}
	}
	if x.sort == SInt && y.IsConst() {
		switch op {
		case token.SHL:
			if y.i >= 0 && y.i < 62 {
				return tb.Mul(x, tb.Int(1<<uint(y.i)))
			}
		case token.SHR:
			if y.i >= 0 && y.i < 62 {
				// arithmetic shift = floor division
				in.note("symbolic >> encoded as floor division")
				d := tb.Int(1 << uint(y.i))
				q := tb.Div(x, d)
				return tb.Ite(tb.And(tb.Lt(x, tb.Int(0)), tb.Ne(tb.Rem(x, d), tb.Int(0))), tb.Sub(q, tb.Int(1)), q)
			}
		}
	}
	in.unsupported("binary op %s on symbolic %s values at %s", op, x.sort, site)
	return nil
}

func (in *Interp) trackOvf(r *Term) {
	if r.sort == SInt && !r.IsConst() && in.cfg.CheckOverflow {
		in.ovf = append(in.ovf, r)
	}
}

func (in *Interp) convert(v Value, from, to types.Type, site string) Value {
	fu, tu := from.Underlying(), to.Underlying()
	if t, ok := v.(*Term); ok {
		switch {
		case isIntT(tu) && isIntT(fu):
			if t.IsConst() {
				return in.tb.Int(wrapInt(t.i, tu.(*types.Basic)))
			}
			fb, tbb := fu.(*types.Basic), tu.(*types.Basic)
			if intBits(tbb) < intBits(fb) {
				in.note("narrowing integer conversion of a symbolic value treated as identity")
			}
			return t
		case isFloatT(tu) && isIntT(fu):
			return in.tb.I2F(t)
		case isIntT(tu) && isFloatT(fu):
			return in.tb.F2I(t)
		case isFloatT(tu) && isFloatT(fu):
			if tu.(*types.Basic).Kind() == types.Float32 && fu.(*types.Basic).Kind() != types.Float32 {
				if t.IsConst() && in.tb.fmode {
					return in.tb.Float(float64(float32(t.f)))
				}
				in.note("float64->float32 rounding not modelled")
			}
			return t
		case isStringT(tu) && isIntT(fu):
			if t.IsConst() {
				return string(rune(t.i))
			}
		}
	}
	if s, ok := v.(string); ok {
		if isStringT(tu) {
			return s
		}
		if sl, ok := tu.(*types.Slice); ok {
			if b, ok := sl.Elem().Underlying().(*types.Basic); ok && b.Kind() == types.Byte {
				r := in.makeSlice(sl.Elem(), len(s), len(s))
				for i := 0; i < len(s); i++ {
					r.at(i).store(in.tb.Int(int64(s[i])))
				}
				return r
			}
		}
	}
	if sv, ok := v.(SliceV); ok && isStringT(tu) {
		bs := make([]byte, sv.length)
		for i := range bs {
			t := in.term(sv.at(i).load(), "string(bytes)")
			if !t.IsConst() {
				in.unsupported("string from symbolic bytes")
			}
			bs[i] = byte(t.i)
		}
		return string(bs)
	}
	if p, ok := v.(Ptr); ok {
		if _, ok := tu.(*types.Pointer); ok {
			return p
		}
		if b, ok := tu.(*types.Basic); ok && b.Kind() == types.UnsafePointer {
			return p
		}
	}
	if o, ok := v.(Opaque); ok {
		return o
	}
	in.unsupported("conversion %s -> %s at %s", from, to, site)
	return nil
}

func intBits(b *types.Basic) int {
	switch b.Kind() {
	case types.Int8, types.Uint8:
		return 8
	case types.Int16, types.Uint16:
		return 16
	case types.Int32, types.Uint32:
		return 32
	}
	return 64
}

func wrapInt(i int64, b *types.Basic) int64 {
	switch b.Kind() {
	case types.Int8:
		return int64(int8(i))
	case types.Uint8:
		return int64(uint8(i))
	case types.Int16:
		return int64(int16(i))
	case types.Uint16:
		return int64(uint16(i))
	case types.Int32:
		return int64(int32(i))
	case types.Uint32:
		return int64(uint32(i))
	}
	return i
}

func (in *Interp) sliceOp(fr *frame, x *ssa.Slice) Value {
	base := in.get(fr, x.X)
	opt := func(v ssa.Value, def int) int {
		if v == nil {
			return def
		}
		return in.concreteInt(in.get(fr, v), "slice bound")
	}
	switch b := base.(type) {
	case SliceV:
		lo := opt(x.Low, 0)
		hi := opt(x.High, b.length)
		mx := opt(x.Max, b.capacity)
		if lo < 0 || hi < lo || mx < hi || mx > b.capacity {
			in.goPanic("slice bounds out of range [%d:%d:%d] with capacity %d at %s", lo, hi, mx, b.capacity, in.at(x))
		}
		if b.arr == nil {
			return SliceV{}
		}
		return SliceV{arr: b.arr, off: b.off + lo, length: hi - lo, capacity: mx - lo}
	case string:
		lo := opt(x.Low, 0)
		hi := opt(x.High, len(b))
		if lo < 0 || hi < lo || hi > len(b) {
			in.goPanic("string slice bounds out of range at %s", in.at(x))
		}
		return b[lo:hi]
	case Ptr: // *array
		if b.isNil() {
			in.goPanic("slice of nil array pointer at %s", in.at(x))
		}
		arr, ok := (*b.cell()).(*ArrayV)
		if !ok || len(b.path) != 0 {
			in.unsupported("slicing an embedded array at %s", in.at(x))
		}
		n := len(arr.e)
		lo := opt(x.Low, 0)
		hi := opt(x.High, n)
		mx := opt(x.Max, n)
		if lo < 0 || hi < lo || mx < hi || mx > n {
			in.goPanic("slice bounds out of range at %s", in.at(x))
		}
		return SliceV{arr: b.obj, off: lo, length: hi - lo, capacity: mx - lo}
	}
	in.unsupported("slice of %T", base)
	return nil
}

func (in *Interp) typeAssert(fr *frame, x *ssa.TypeAssert) Value {
	v := in.get(fr, x.X)
	ifc, ok := v.(Iface)
	if !ok {
		if o, isO := v.(Opaque); isO {
			in.unsupported("type assertion on opaque value (%s)", o.why)
		}
		panic(fmt.Sprintf("type assert on %T", v))
	}
	var res Value
	good := false
	if ifc.t != nil {
		if it, isI := x.AssertedType.Underlying().(*types.Interface); isI {
			if types.Implements(ifc.t, it) {
				good, res = true, ifc
			}
		} else if types.Identical(ifc.t, x.AssertedType) {
			good, res = true, ifc.v
		}
	}
	if x.CommaOk {
		if !good {
			res = in.zero(x.AssertedType)
		}
		return Tuple{res, in.tb.Bool(good)}
	}
	if !good {
		in.goPanic("interface conversion failed (%v is not %s) at %s", ifc.t, x.AssertedType, in.at(x))
	}
	return res
}

// ---------- maps ----------

func (in *Interp) keyEq(a, b Value) *Term {
	return in.valuesEqual(a, b, "map key")
}

func (in *Interp) mapFind(m *MapV, key Value) int {
	for i, k := range m.keys {
		if in.branch(in.keyEq(k, key)) {
			return i
		}
	}
	return -1
}

func (in *Interp) lookup(fr *frame, x *ssa.Lookup) Value {
	base := in.get(fr, x.X)
	if s, ok := base.(string); ok {
		i := in.concreteInt(in.get(fr, x.Index), "string index")
		if i < 0 || i >= len(s) {
			in.goPanic("string index out of range at %s", in.at(x))
		}
		return in.tb.Int(int64(s[i]))
	}
	m, ok := base.(*MapV)
	if !ok {
		in.unsupported("lookup in %T at %s", base, in.at(x))
	}
	mt := x.X.Type().Underlying().(*types.Map)
	var val Value
	found := false
	if m != nil {
		if i := in.mapFind(m, in.get(fr, x.Index)); i >= 0 {
			val, found = copyVal(m.vals[i]), true
		}
	}
	if !found {
		val = in.zero(mt.Elem())
	}
	if x.CommaOk {
		return Tuple{val, in.tb.Bool(found)}
	}
	return val
}

func (in *Interp) mapUpdate(m *MapV, key, val Value) {
	if i := in.mapFind(m, key); i >= 0 {
		m.vals[i] = val
		return
	}
	m.keys = append(m.keys, key)
	m.vals = append(m.vals, val)
}

func (in *Interp) rangeOp(v Value) Value {
	switch x := v.(type) {
	case string:
		return &MapIter{isStr: true, str: x}
	case *MapV:
		it := &MapIter{m: x}
		if x != nil {
			n := len(x.keys)
			if n > 1 {
				in.ndSrc++
			}
			rem := make([]int, n)
			for i := range rem {
				rem[i] = i
			}
			for len(rem) > 0 {
				k := 0
				if in.cfg.ForkMapOrder {
					k = in.choose(len(rem))
				}
				it.order = append(it.order, rem[k])
				rem = append(rem[:k], rem[k+1:]...)
			}
		}
		return it
	}
	in.unsupported("range over %T", v)
	return nil
}

func (in *Interp) nextOp(it *MapIter, x *ssa.Next) Value {
	if it.isStr {
		if it.pos >= len(it.str) {
			return Tuple{in.tb.fls, in.tb.Int(0), in.tb.Int(0)}
		}
		// ASCII only
		i := it.pos
		it.pos++
		return Tuple{in.tb.tru, in.tb.Int(int64(i)), in.tb.Int(int64(it.str[i]))}
	}
	tt := x.Type().(*types.Tuple)
	if it.m == nil || it.pos >= len(it.order) {
		var kz, vz Value = in.tb.Int(0), in.tb.Int(0)
		if tt.At(1).Type() != nil {
			if _, inv := tt.At(1).Type().(*types.Basic); !inv || tt.At(1).Type().(*types.Basic).Kind() != types.Invalid {
				kz = in.zero(tt.At(1).Type())
			}
		}
		if b, inv := tt.At(2).Type().(*types.Basic); !inv || b.Kind() != types.Invalid {
			vz = in.zero(tt.At(2).Type())
		}
		return Tuple{in.tb.fls, kz, vz}
	}
	i := it.order[it.pos]
	it.pos++
	return Tuple{in.tb.tru, it.m.keys[i], copyVal(it.m.vals[i])}
}

// ---------- channels (only what context cancellation needs) ----------

func (in *Interp) pollChan(ch *ChanV) *Term {
	if ch.fresh != "" {
		if ch.once && ch.was != nil {
			// a closed channel stays closed
			c := in.newNondet("bool", ch.fresh, SBool)
			now := in.tb.Or(ch.was, c)
			ch.was = now
			return now
		}
		c := in.newNondet("bool", ch.fresh, SBool)
		ch.was = c
		return c
	}
	return ch.closed
}

func (in *Interp) selectOp(fr *frame, x *ssa.Select) Value {
	if x.Blocking || len(x.States) != 1 || x.States[0].Dir != types.RecvOnly {
		in.unsupported("select form at %s", in.at(x))
	}
	chv, _ := in.get(fr, x.States[0].Chan).(*ChanV)
	res := Tuple{in.tb.Int(-1), in.tb.fls}
	tt := x.Type().(*types.Tuple)
	for i := 2; i < tt.Len(); i++ {
		res = append(res, in.zero(tt.At(i).Type()))
	}
	if chv == nil {
		return res // nil channel: never ready
	}
	if in.branch(in.pollChan(chv)) {
		res[0] = in.tb.Int(0)
	}
	return res
}

// ---------- builtins ----------

func (in *Interp) builtin(b *ssa.Builtin, args []Value, c *ssa.CallCommon, site string) Value {
	switch b.Name() {
	case "len":
		switch x := args[0].(type) {
		case SliceV:
			return in.tb.Int(int64(x.length))
		case string:
			return in.tb.Int(int64(len(x)))
		case *MapV:
			if x == nil {
				return in.tb.Int(0)
			}
			return in.tb.Int(int64(len(x.keys)))
		case *ArrayV:
			return in.tb.Int(int64(len(x.e)))
		case Ptr:
			if x.isNil() {
				at := c.Args[0].Type().Underlying().(*types.Pointer).Elem().Underlying().(*types.Array)
				return in.tb.Int(at.Len())
			}
			return in.tb.Int(int64(len((*x.cell()).(*ArrayV).e)))
		case Opaque:
			in.unsupported("len of opaque value (%s) at %s", x.why, site)
		}
	case "cap":
		switch x := args[0].(type) {
		case SliceV:
			return in.tb.Int(int64(x.capacity))
		case *ArrayV:
			return in.tb.Int(int64(len(x.e)))
		}
	case "append":
		s := args[0].(SliceV)
		if str, ok := args[1].(string); ok {
			tmp := in.makeSlice(types.Typ[types.Byte], len(str), len(str))
			for i := 0; i < len(str); i++ {
				tmp.at(i).store(in.tb.Int(int64(str[i])))
			}
			args[1] = tmp
		}
		add := args[1].(SliceV)
		if add.length == 0 {
			return s
		}
		et := c.Args[0].Type().Underlying().(*types.Slice).Elem()
		newLen := s.length + add.length
		// read the elements first (add may alias s)
		vals := make([]Value, add.length)
		for i := range vals {
			vals[i] = add.at(i).load()
		}
		if newLen <= s.capacity {
			r := SliceV{arr: s.arr, off: s.off, length: newLen, capacity: s.capacity}
			for i, v := range vals {
				p := r.at(s.length + i)
				if in.access != nil {
					in.access.record(p, true, site)
				}
				p.store(v)
			}
			return r
		}
		nc := growCap(s.capacity, newLen, int(stdSizes.Sizeof(et)))
		r := in.makeSlice(et, newLen, nc)
		for i := 0; i < s.length; i++ {
			src := s.at(i)
			if in.access != nil {
				in.access.record(src, false, site)
			}
			r.at(i).store(src.load())
		}
		for i, v := range vals {
			r.at(s.length + i).store(v)
		}
		return r
	case "copy":
		dst := args[0].(SliceV)
		var n int
		if str, ok := args[1].(string); ok {
			n = len(str)
			if dst.length < n {
				n = dst.length
			}
			for i := 0; i < n; i++ {
				dst.at(i).store(in.tb.Int(int64(str[i])))
			}
			return in.tb.Int(int64(n))
		}
		src := args[1].(SliceV)
		n = src.length
		if dst.length < n {
			n = dst.length
		}
		vals := make([]Value, n)
		for i := range vals {
			vals[i] = src.at(i).load()
		}
		for i, v := range vals {
			dst.at(i).store(v)
		}
		return in.tb.Int(int64(n))
	case "delete":
		m := args[0].(*MapV)
		if m == nil {
			return nil
		}
		if i := in.mapFind(m, args[1]); i >= 0 {
			m.keys = append(m.keys[:i:i], m.keys[i+1:]...)
			m.vals = append(m.vals[:i:i], m.vals[i+1:]...)
		}
		return nil
	case "print", "println":
		return nil
	case "recover":
		return Iface{}
	case "close":
		if ch, ok := args[0].(*ChanV); ok && ch != nil {
			ch.closed = in.tb.tru
			if in.access != nil {
				in.access.syncEvent("chclose", fmt.Sprintf("chan%d", ch.id), site, 0)
			}
			return nil
		}
	case "min", "max":
		r := in.term(args[0], b.Name())
		for _, a := range args[1:] {
			y := in.term(a, b.Name())
			if b.Name() == "min" {
				r = in.tb.Ite(in.tb.Lt(y, r), y, r)
			} else {
				r = in.tb.Ite(in.tb.Lt(r, y), y, r)
			}
		}
		return r
	case "ssa:wrapnilchk":
		p, ok := args[0].(Ptr)
		if ok && p.isNil() {
			in.goPanic("value method called via nil pointer at %s", site)
		}
		return args[0]
	case "clear":
		if m, ok := args[0].(*MapV); ok && m != nil {
			m.keys, m.vals = nil, nil
			return nil
		}
	}
	in.unsupported("builtin %s on %T at %s", b.Name(), args[0], site)
	return nil
}

// hasUF reports whether a term depends on an uninterpreted function (whose model interpretation has no native counterpart).
func hasUF(t *Term, seen map[*Term]bool) bool {
	if seen[t] {
		return false
	}
	seen[t] = true
	if t.op == OUF || t.op == OSqrt {
		return true
	}
	for _, a := range t.args {
		if hasUF(a, seen) {
			return true
		}
	}
	return false
}
