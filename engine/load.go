package main

// Loading /repo's current tree with the harness overlay and building SSA for the whole program.

import (
	"crypto/sha256"
	"fmt"
	"go/token"
	"os"
	"path/filepath"
	"regexp"
	"sort"
	"strings"

	"golang.org/x/tools/go/packages"
	"golang.org/x/tools/go/ssa"
	"golang.org/x/tools/go/ssa/ssautil"
)

type Loaded struct {
	prog    *ssa.Program
	pkgs    map[string]*ssa.Package // by harness dir (relative, e.g. "neat/genetics")
	fset    *token.FileSet
	overlay map[string]string // virtual path -> real harness path (symbolic build)
	repo    string
	root    string
}

var pkgClause = regexp.MustCompile(`(?m)^package\s+(\w+)`)

// harnessDirs lists the relative package directories that have harness files.
func harnessDirs(root string) ([]string, error) {
	var dirs []string
	err := filepath.Walk(root, func(p string, info os.FileInfo, err error) error {
		if err != nil {
			return err
		}
		if info.IsDir() || !strings.HasSuffix(p, ".go") {
			return nil
		}
		rel, _ := filepath.Rel(root, filepath.Dir(p))
		if rel == "common" || strings.HasPrefix(rel, "common/") {
			return nil
		}
		for _, d := range dirs {
			if d == rel {
				return nil
			}
		}
		dirs = append(dirs, rel)
		return nil
	})
	sort.Strings(dirs)
	return dirs, err
}

// buildOverlay maps harness files into the repo's package directories. replay selects the native
// variant (vrt_replay.go instead of vrt_sym.go).
func buildOverlay(repo, root string, dirs []string, replay bool, scratch string) (map[string][]byte, map[string]string, error) {
	ov := map[string][]byte{}
	names := map[string]string{}
	for _, d := range dirs {
		files, _ := filepath.Glob(filepath.Join(root, d, "*.go"))
		pkgName := ""
		for _, f := range files {
			if (replay && strings.HasSuffix(f, "_symonly.go")) || (!replay && strings.HasSuffix(f, "_replayonly.go")) {
				continue
			}
			src, err := os.ReadFile(f)
			if err != nil {
				return nil, nil, err
			}
			if m := pkgClause.FindSubmatch(src); m != nil && pkgName == "" {
				pkgName = string(m[1])
			}
			v := filepath.Join(repo, d, "zz_verif_"+filepath.Base(f))
			ov[v] = src
			names[v] = f
		}
		rt := "vrt_sym.go"
		if replay {
			rt = "vrt_replay.go"
		}
		tmpl, err := os.ReadFile(filepath.Join(root, "common", rt))
		if err != nil {
			return nil, nil, err
		}
		v := filepath.Join(repo, d, "zz_verif_"+rt)
		ov[v] = []byte(strings.Replace(string(tmpl), "package PKG", "package "+pkgName, 1))
		names[v] = filepath.Join(root, "common", rt)
	}
	return ov, names, nil
}

func Load(repo, root string) (*Loaded, error) {
	dirs, err := harnessDirs(root)
	if err != nil {
		return nil, err
	}
	ov, names, err := buildOverlay(repo, root, dirs, false, "")
	if err != nil {
		return nil, err
	}
	fset := token.NewFileSet()
	cfg := &packages.Config{
		Mode:       packages.NeedName | packages.NeedFiles | packages.NeedCompiledGoFiles | packages.NeedImports | packages.NeedDeps | packages.NeedTypes | packages.NeedSyntax | packages.NeedTypesInfo | packages.NeedTypesSizes | packages.NeedModule,
		Dir:        repo,
		Fset:       fset,
		Overlay:    ov,
		BuildFlags: []string{"-tags=noasm"},
		Env:        append(os.Environ(), "GOFLAGS=-mod=mod", "GOPROXY=off", "GOSUMDB=off", "GOTOOLCHAIN=local"),
	}
	var pats []string
	for _, d := range dirs {
		pats = append(pats, "./"+d)
	}
	initial, err := packages.Load(cfg, pats...)
	if err != nil {
		return nil, err
	}
	var errs []string
	packages.Visit(initial, nil, func(p *packages.Package) {
		for _, e := range p.Errors {
			errs = append(errs, e.Error())
		}
	})
	if len(errs) > 0 {
		if len(errs) > 20 {
			errs = errs[:20]
		}
		return nil, fmt.Errorf("load errors:\n%s", strings.Join(errs, "\n"))
	}
	prog, spkgs := ssautil.AllPackages(initial, ssa.InstantiateGenerics)
	prog.Build()
	ld := &Loaded{prog: prog, pkgs: map[string]*ssa.Package{}, fset: fset, overlay: names, repo: repo, root: root}
	for i, p := range initial {
		rel := strings.TrimPrefix(pats[i], "./")
		_ = p
		ld.pkgs[rel] = spkgs[i]
	}
	// packages.Load may reorder: map by directory instead
	for i, p := range initial {
		if len(p.GoFiles) > 0 {
			rel, _ := filepath.Rel(repo, filepath.Dir(p.GoFiles[0]))
			ld.pkgs[rel] = spkgs[i]
		}
	}
	return ld, nil
}

// funcHash returns a SHA-256 over the source span of a function (or "" for synthetic ones).
func (ld *Loaded) funcHash(fn *ssa.Function, cache map[string][]byte) (string, string) {
	syn := fn.Syntax()
	if syn == nil {
		return "", ""
	}
	p0, p1 := ld.fset.Position(syn.Pos()), ld.fset.Position(syn.End())
	if p0.Filename == "" {
		return "", ""
	}
	src, ok := cache[p0.Filename]
	if !ok {
		real := p0.Filename
		if r, isOv := ld.overlay[real]; isOv {
			real = r
		}
		b, err := os.ReadFile(real)
		if err != nil {
			return "", p0.Filename
		}
		src = b
		cache[p0.Filename] = src
	}
	if p0.Offset < 0 || p1.Offset > len(src) || p0.Offset > p1.Offset {
		return "", p0.Filename
	}
	h := sha256.Sum256(src[p0.Offset:p1.Offset])
	return fmt.Sprintf("%x", h[:8]), fmt.Sprintf("%s:%d", p0.Filename, p0.Line)
}
