package main

// The check driver: `gosym check <ID> [--tier quick|thorough] [--replay path]`.
// Reads /verif/checks/<ID>.json, regenerates the encoding from /repo's current tree, explores every entry of the
// tier, replays counter-examples natively, validates the translator on witness paths, writes the evidence file.

import (
	"encoding/json"
	"flag"
	"fmt"
	"math"
	"os"
	"path/filepath"
	"runtime"
	"sort"
	"strconv"
	"strings"
	"time"

	"golang.org/x/tools/go/ssa"
)

func initFns(pkg *ssa.Package) []*ssa.Function {
	if f := pkg.Func("init"); f != nil {
		return []*ssa.Function{f}
	}
	return nil
}

type EntrySpec struct {
	Dir            string              `json:"dir"`
	Entry          string              `json:"entry"`
	Tier           string              `json:"tier"` // quick | thorough | both
	Mode           string              `json:"mode"` // R | F
	Solver         string              `json:"solver"`
	Unwind         int                 `json:"unwind"`
	MaxPaths       int                 `json:"max_paths"`
	TimeoutMs      int                 `json:"timeout_ms"`
	ForkMap        bool                `json:"fork_map_order"`
	NoForkMap      bool                `json:"no_fork_map_order"`
	AllowCuts      bool                `json:"allow_cuts"`
	CutReason      string              `json:"cut_reason"`
	Redirects      map[string]string   `json:"redirects"`
	Desc           string              `json:"desc"`
	Bounds         string              `json:"bounds"`
	Race           bool                `json:"race"`
	Overflow       bool                `json:"overflow"`
	Tol            float64             `json:"tol"`
	Schedule       bool                `json:"schedule"` // C16: collect access traces and run the schedule query
	GoThreads      bool                `json:"go_threads"` // go statements start logical threads covered by the schedule query
	MaxEnum        int                 `json:"max_enum"`
	NoValidate     bool                `json:"no_validate"`
	ExpectNd       bool                `json:"expect_no_nondeterminism"`
	NativeRename   map[string][]string `json:"native_rename"`
	NativeFiles    []string            `json:"native_files"`
	ReplayAttempts int                 `json:"replay_attempts"` // native confirmation may need several runs (map order, scheduling)
	MaxWallS       int                 `json:"max_wall_s"`
}

type CheckSpec struct {
	Property    string      `json:"property"`
	Entries     []EntrySpec `json:"entries"`
	Assumptions []string    `json:"assumptions"`
	Outside     []string    `json:"outside_bounds"`
}

type knownFindings struct {
	known map[string]string // "C01/8b" -> description
	fixed []string
}

func loadKnown(path string) *knownFindings {
	kf := &knownFindings{known: map[string]string{}}
	b, err := os.ReadFile(path)
	if err != nil {
		return kf
	}
	for _, l := range strings.Split(string(b), "\n") {
		l = strings.TrimSpace(l)
		if strings.HasPrefix(l, "known:") {
			// known: property=C01 id=8b <what fails>
			f := strings.Fields(l)
			var prop, id string
			for _, w := range f {
				if strings.HasPrefix(w, "property=") {
					prop = strings.TrimPrefix(w, "property=")
				}
				if strings.HasPrefix(w, "id=") {
					id = strings.TrimPrefix(w, "id=")
				}
			}
			if prop != "" && id != "" {
				kf.known[prop+"/"+id] = strings.TrimSpace(strings.TrimPrefix(l, "known:"))
			}
		} else if strings.HasPrefix(l, "fixed:") {
			kf.fixed = append(kf.fixed, l)
		}
	}
	return kf
}

// knownID extracts the id from an assertion message of the form "KNOWN:<id> text".
func knownID(msg string) string {
	if strings.HasPrefix(msg, "KNOWN:") {
		rest := strings.TrimPrefix(msg, "KNOWN:")
		if i := strings.IndexAny(rest, " \t"); i > 0 {
			return rest[:i]
		}
		return rest
	}
	return ""
}

// assertMessages statically collects the constant messages of vAssert/vAssertEqF calls reachable from entry
// inside the harness package (for the per-assertion vacuity check).
func assertMessages(entry *ssa.Function) map[string]bool {
	msgs := map[string]bool{}
	seen := map[*ssa.Function]bool{}
	var walk func(f *ssa.Function)
	walk = func(f *ssa.Function) {
		if f == nil || seen[f] || f.Blocks == nil {
			return
		}
		seen[f] = true
		for _, b := range f.Blocks {
			for _, ins := range b.Instrs {
				var cc *ssa.CallCommon
				switch x := ins.(type) {
				case *ssa.Call:
					cc = &x.Call
				case *ssa.Defer:
					cc = &x.Call
				case *ssa.MakeClosure:
					if fn, ok := x.Fn.(*ssa.Function); ok {
						walk(fn)
					}
				}
				if cc == nil {
					continue
				}
				callee := cc.StaticCallee()
				if callee == nil {
					continue
				}
				if callee.Pkg == entry.Pkg {
					switch callee.Name() {
					case "vAssert":
						if c, ok := cc.Args[1].(*ssa.Const); ok {
							msgs[constString(c)] = true
						}
					case "vAssertEqF":
						if c, ok := cc.Args[2].(*ssa.Const); ok {
							msgs[constString(c)] = true
						}
					default:
						walk(callee)
					}
				}
			}
		}
	}
	walk(entry)
	return msgs
}

func constString(c *ssa.Const) string {
	if c.Value == nil {
		return ""
	}
	s, err := strconv.Unquote(c.Value.ExactString())
	if err != nil {
		return c.Value.ExactString()
	}
	return s
}

func sanitize(f float64) float64 {
	if math.IsNaN(f) || math.IsInf(f, 0) {
		return 0
	}
	return f
}

type entryReport struct {
	Entry        string            `json:"entry"`
	Desc         string            `json:"desc,omitempty"`
	Bounds       string            `json:"bounds,omitempty"`
	FloatModel   string            `json:"float_model"`
	Solver       string            `json:"solver"`
	Paths        int               `json:"paths"`
	PathEnds     map[string]int    `json:"path_ends"`
	Branches     int               `json:"branch_decisions"`
	Steps        int               `json:"ssa_instructions_executed"`
	Obligations  int               `json:"obligations"`
	Discharged   int               `json:"discharged"`
	Queries      int               `json:"solver_queries"`
	SolverTimeS  float64           `json:"solver_time_s"`
	MaxQueryS    float64           `json:"max_query_s"`
	WallS        float64           `json:"wall_s"`
	Asserts      map[string]int    `json:"assertions_checked_on_paths"`
	Reached      map[string]int    `json:"reach_witnesses"`
	Cuts         map[string]int    `json:"cuts,omitempty"`
	Notes        map[string]int    `json:"notes,omitempty"`
	NdSources    int               `json:"nondeterminism_sources_consumed"`
	Redirects    map[string]string `json:"redirects,omitempty"`
	Validated    int               `json:"witness_paths_validated_natively"`
	Violations   int               `json:"violations"`
	UnknownFeas  int               `json:"feasibility_unknown_kept"`
	SchedQueries int               `json:"schedule_queries,omitempty"`
	CrossCheck   string            `json:"engine_cross_check,omitempty"`
}

func cmdCheck(args []string) int {
	fs := flag.NewFlagSet("check", flag.ExitOnError)
	repo := fs.String("repo", "/repo", "repository root")
	verif := fs.String("verif", "/verif", "verification root")
	tier := fs.String("tier", "", "quick|thorough")
	replay := fs.String("replay", "", "re-run a stored counter-example natively")
	only := fs.String("only", "", "run only the entry with this name")
	workers := fs.Int("j", runtime.NumCPU(), "workers")
	verbose := fs.Bool("v", false, "verbose")
	noEvidence := fs.Bool("no-evidence", false, "do not write the evidence file")
	maxPathsOv := fs.Int("maxpaths", 0, "override the path limit (probing)")
	noCross := fs.Bool("no-cross", false, "skip the thorough tier's no-merge / second-solver cross-check")
	replayDir := fs.String("replaydir", "", "directory for counter-example scripts (default <verif>/replays)")
	var id string
	if len(args) > 0 && !strings.HasPrefix(args[0], "-") {
		id = args[0]
		args = args[1:]
	}
	fs.Parse(args)
	if id == "" && fs.NArg() > 0 {
		id = fs.Arg(0)
	}
	if *tier == "" {
		*tier = os.Getenv("VERIF_TIER")
	}
	if *tier == "" {
		*tier = "quick"
	}
	seed, _ := strconv.ParseInt(os.Getenv("VERIF_SEED"), 10, 64)
	root := filepath.Join(*verif, "harness")
	if *replay != "" {
		return cmdReplay(*repo, root, *verif, id, *replay)
	}
	t0 := time.Now()
	specB, err := os.ReadFile(filepath.Join(*verif, "checks", id+".json"))
	if err != nil {
		fmt.Println("INCONCLUSIVE property=" + id + " no check spec: " + err.Error())
		return 2
	}
	var spec CheckSpec
	if err := json.Unmarshal(specB, &spec); err != nil {
		fmt.Println("INCONCLUSIVE property=" + id + " bad check spec: " + err.Error())
		return 2
	}
	kf := loadKnown(filepath.Join(*verif, "known_findings.txt"))
	ld, err := Load(*repo, root)
	if err != nil {
		fmt.Printf("INCONCLUSIVE property=%s cannot load/encode the repository: %v\n", id, trunc(err.Error(), 2000))
		return 2
	}
	loadT := time.Since(t0)

	var reports []entryReport
	var inconclusive []string
	funcs := map[string]bool{}
	stubs := map[string]int{}
	var samples []interface{}
	totalPaths, totalBranches, totalObl, totalDis, totalValidated, totalQueries := 0, 0, 0, 0, 0, 0
	var solverTime time.Duration
	type cand struct {
		v     *Violation
		spec  EntrySpec
		path  string
		known string
	}
	var cands []cand
	var witnessJobs []ReplayJob
	witnessObs := map[string][]ObservedVal{}
	witnessEntry := map[string]int{}
	schedViolations := []string{}
	anyStoppedEarly := false
	allAsserts := map[string]bool{}
	assertsHit := map[string]int{}

	for ei, es := range spec.Entries {
		if es.Tier != "both" && es.Tier != *tier && !(es.Tier == "" && *tier == "quick") {
			continue
		}
		if *only != "" && es.Entry != *only {
			continue
		}
		pkg := ld.pkgs[es.Dir]
		if pkg == nil {
			inconclusive = append(inconclusive, "no package for "+es.Dir)
			continue
		}
		fn := pkg.Func(es.Entry)
		if fn == nil {
			inconclusive = append(inconclusive, "no harness entry "+es.Entry)
			continue
		}
		cfg := defaultConfig()
		cfg.Workers = *workers
		cfg.FMode = es.Mode == "F"
		if es.Solver != "" {
			cfg.Solver = es.Solver
		} else if cfg.FMode {
			cfg.Solver = "cvc5"
		}
		if es.Unwind > 0 {
			cfg.Unwind = es.Unwind
		}
		if es.MaxPaths > 0 {
			cfg.MaxPaths = es.MaxPaths
		}
		if es.TimeoutMs > 0 {
			cfg.TimeoutMs = es.TimeoutMs
		} else if *tier == "thorough" {
			cfg.TimeoutMs = 300000
		}
		if es.MaxEnum > 0 {
			cfg.MaxEnum = es.MaxEnum
		}
		if *maxPathsOv > 0 {
			cfg.MaxPaths = *maxPathsOv
		}
		cfg.StopAfterViol = 12
		wall := es.MaxWallS
		if wall == 0 {
			wall = map[string]int{"quick": 420, "thorough": 3600}[*tier]
		}
		cfg.Deadline = time.Now().Add(time.Duration(wall) * time.Second)
		cfg.ForkMapOrder = !es.NoForkMap // every iteration order of every map range is explored unless the entry opts out
		cfg.AllowCuts = es.AllowCuts
		cfg.CheckOverflow = es.Overflow
		cfg.AccessLog = es.Schedule
		cfg.GoThreads = es.GoThreads
		cfg.Seed = seed
		cfg.redirects = map[string]*ssa.Function{}
		for from, to := range es.Redirects {
			tf := pkg.Func(to)
			if tf == nil {
				inconclusive = append(inconclusive, "redirect target not found: "+to)
				continue
			}
			cfg.redirects[from] = tf
		}
		res := Explore(ld.prog, fn, initFns(pkg), cfg)
		if *verbose {
			printResult(res, false)
		}
		// thorough tier: cross-check of the engine itself - the entry is explored a second time WITHOUT state merging
		// and with the other solver (z3 5.1.0); the two runs must reach the same verdict on every assertion
		crossNote := ""
		if *tier == "thorough" && es.Tier == "both" && !cfg.FMode && !*noCross {
			cfg2 := *cfg
			cfg2.NoMerge = true
			cfg2.Solver = "z3-new"
			res2 := Explore(ld.prog, fn, initFns(pkg), &cfg2)
			m1, m2 := map[string]bool{}, map[string]bool{}
			for _, v := range res.Violations {
				m1[v.Msg] = true
			}
			for _, v := range res2.Violations {
				m2[v.Msg] = true
			}
			agree := len(m1) == len(m2) && res.Reached["end"] > 0 == (res2.Reached["end"] > 0)
			for k := range m1 {
				if !m2[k] {
					agree = false
				}
			}
			if len(res2.Inconclusive) > 0 || res2.MaxPathsHit {
				crossNote = fmt.Sprintf("cross-check run (no merging, z3-new) inconclusive: %d issues", len(res2.Inconclusive))
			} else if !agree {
				crossNote = "DISAGREEMENT between the merged/z3 run and the unmerged/z3-new run"
				inconclusive = append(inconclusive, es.Entry+": engine cross-check disagreement (state merging or solver): "+fmt.Sprint(len(m1), " vs ", len(m2), " violated assertions"))
			} else {
				crossNote = fmt.Sprintf("cross-check agreed: %d paths without merging on z3-new vs %d paths with merging on z3; %d obligations re-discharged", res2.Paths, res.Paths, res2.Discharged)
			}
			totalQueries += res2.Solver.Queries
			solverTime += res2.Solver.Time
		}
		rep := entryReport{Entry: es.Entry, Desc: es.Desc, Bounds: es.Bounds, FloatModel: map[bool]string{true: "F (IEEE-754 binary64, RNE)", false: "R (reals)"}[cfg.FMode], Solver: cfg.Solver,
			Paths: res.Paths, PathEnds: res.Ends, Branches: res.Branches, Steps: res.Steps, Obligations: res.Obligations, Discharged: res.Discharged,
			Queries: res.Solver.Queries, SolverTimeS: res.Solver.Time.Seconds(), MaxQueryS: res.Solver.MaxQuery.Seconds(), WallS: res.Wall.Seconds(),
			CrossCheck: crossNote, Asserts: res.Asserts, Reached: res.Reached, Notes: res.Notes, NdSources: res.NdSources, Redirects: es.Redirects, Violations: len(res.Violations), UnknownFeas: res.UnknownFeas}
		totalPaths += res.Paths
		totalBranches += res.Branches
		totalObl += res.Obligations
		totalDis += res.Discharged
		totalQueries += res.Solver.Queries
		solverTime += res.Solver.Time
		for f := range res.Funcs {
			funcs[f] = true
		}
		for k, v := range res.Stubs {
			stubs[k] += v
		}
		for _, s := range res.Inconclusive {
			inconclusive = append(inconclusive, es.Entry+": "+s)
		}
		if res.StoppedEarly {
			anyStoppedEarly = true
		}
		if res.MaxPathsHit {
			inconclusive = append(inconclusive, es.Entry+": path limit reached")
		}
		if res.Solver.Errors > 0 {
			inconclusive = append(inconclusive, fmt.Sprintf("%s: %d solver errors", es.Entry, res.Solver.Errors))
		}
		// vacuity
		if res.Reached["end"] == 0 && !res.StoppedEarly {
			inconclusive = append(inconclusive, es.Entry+": VACUOUS - no feasible path reaches the end of the harness")
		}
		for m := range assertMessages(fn) {
			// harness code shared between properties tags its messages "Cxx ..."; only this property's count
			if knownID(m) == "" && !(len(m) > 3 && m[0] == 'C' && m[1] >= '0' && m[1] <= '9' && m[2] >= '0' && m[2] <= '9' && m[:3] != id) {
				allAsserts[m] = true
			}
		}
		for m, n := range res.Asserts {
			assertsHit[m] += n
		}
		if es.ExpectNd && res.NdSources > 0 {
			// handled by harness assertions; recorded only
		}
		if es.Schedule {
			nq, races := scheduleQueries(res.Traces, cfg)
			rep.SchedQueries = nq
			totalObl += nq
			totalDis += nq - len(races)
			totalQueries += nq
			for _, r := range races {
				schedViolations = append(schedViolations, es.Entry+": "+r)
			}
		}
		// candidates: up to 2 per distinct message
		perMsg := map[string]int{}
		for _, v := range res.Violations {
			if perMsg[v.Msg] >= 2 {
				continue
			}
			perMsg[v.Msg]++
			rd := *replayDir
			if rd == "" {
				rd = filepath.Join(*verif, "replays")
			}
			p := filepath.Join(rd, id, fmt.Sprintf("%s_%d_%d.json", es.Entry, ei, len(cands)))
			cands = append(cands, cand{v: v, spec: es, path: p})
		}
		for i, w := range res.Witnesses {
			if es.NoValidate {
				break
			}
			p := filepath.Join(os.TempDir(), fmt.Sprintf("gosym-witness-%d-%s-%d-%d.json", os.Getpid(), id, ei, i))
			witnessJobs = append(witnessJobs, ReplayJob{Dir: es.Dir, Entry: es.Entry, Script: w.Script, Tol: es.Tol, Path: p, Real: es.Mode != "F", Rename: es.NativeRename, NativeFiles: es.NativeFiles})
			witnessObs[p] = w.Observed
			witnessEntry[p] = len(reports)
		}
		for i, s := range res.Samples {
			if i < 2 {
				samples = append(samples, map[string]interface{}{"entry": es.Entry, "path_decisions": s.Decisions, "inputs": s.Script, "observed": s.Observed})
			}
		}
		reports = append(reports, rep)
	}
	for m := range allAsserts {
		if assertsHit[m] == 0 && *only == "" && !anyStoppedEarly {
			inconclusive = append(inconclusive, fmt.Sprintf("VACUOUS - assertion %q is never reached by any entry of this tier", m))
		}
	}
	if len(reports) == 0 {
		fmt.Printf("INCONCLUSIVE property=%s no entries for tier %s\n", id, *tier)
		return 2
	}

	// ---- native replay of counter-examples and witness validation (one go test per package) ----
	var jobs []ReplayJob
	for _, c := range cands {
		jobs = append(jobs, ReplayJob{Dir: c.spec.Dir, Entry: c.spec.Entry, Script: c.v.Script, Tol: c.spec.Tol, Path: c.path, Real: c.spec.Mode != "F", Rename: c.spec.NativeRename, NativeFiles: c.spec.NativeFiles})
	}
	needRace := false
	for _, c := range cands {
		if c.spec.Race {
			needRace = true
		}
	}
	jobs = append(jobs, witnessJobs...)
	results, rlog, err := RunReplays(*repo, root, jobs, needRace, 10*time.Minute)
	if err != nil {
		inconclusive = append(inconclusive, "replay machinery failed: "+err.Error())
	}
	// counter-examples whose native manifestation is itself nondeterministic (map iteration order, goroutine
	// scheduling) are replayed again, up to replay_attempts times, until the native run shows the failure
	for attempt := 2; attempt <= 10; attempt++ {
		var again []ReplayJob
		for _, c := range cands {
			if c.spec.ReplayAttempts < attempt {
				continue
			}
			rr := results[c.path]
			ok := false
			if rr != nil {
				for _, f := range rr.Failures {
					if f == c.v.Msg || (c.v.Kind == "race" && f == "DATA RACE") {
						ok = true
					}
				}
			}
			if !ok {
				again = append(again, ReplayJob{Dir: c.spec.Dir, Entry: c.spec.Entry, Script: c.v.Script, Tol: c.spec.Tol, Path: c.path, Real: c.spec.Mode != "F", Rename: c.spec.NativeRename, NativeFiles: c.spec.NativeFiles})
			}
		}
		if len(again) == 0 {
			break
		}
		r2, _, _ := RunReplays(*repo, root, again, needRace, 10*time.Minute)
		for k, v := range r2 {
			results[k] = v
		}
	}
	if rlog != "" {
		inconclusive = append(inconclusive, "replay: "+trunc(rlog, 3000))
	}
	for _, wj := range witnessJobs {
		rr := results[wj.Path]
		os.Remove(wj.Path)
		if rr == nil {
			continue
		}
		if rr.Diverged != "" || rr.Panic != "" {
			inconclusive = append(inconclusive, fmt.Sprintf("translator validation: witness path of %s diverged natively: %s%s", wj.Entry, rr.Diverged, trunc(rr.Panic, 300)))
			continue
		}
		if len(rr.Failures) > 0 {
			inconclusive = append(inconclusive, fmt.Sprintf("translator validation: native run of a witness path of %s fails assertion %q that the engine proved", wj.Entry, rr.Failures[0]))
			continue
		}
		if msg := compareObs(witnessObs[wj.Path], rr.Observed, wj.Tol); msg != "" {
			inconclusive = append(inconclusive, fmt.Sprintf("translator validation: %s: %s", wj.Entry, msg))
			continue
		}
		reports[witnessEntry[wj.Path]].Validated++
		totalValidated++
	}

	violations := 0
	exit := 0
	var lines []string
	knownSeen := map[string]bool{}
	for _, c := range cands {
		rr := results[c.path]
		confirmed := false
		why := ""
		switch {
		case rr == nil:
			why = "no native result"
		case rr.Diverged != "":
			why = "native run diverged: " + rr.Diverged
		case c.v.Kind == "panic":
			confirmed = rr.Panic != ""
			why = "native run did not panic"
		case c.v.Kind == "race":
			for _, f := range rr.Failures {
				if f == "DATA RACE" {
					confirmed = true
				}
			}
			why = "the race detector did not report a race in the native run"
		default:
			for _, f := range rr.Failures {
				if f == c.v.Msg {
					confirmed = true
				}
			}
			if rr.Panic != "" && !confirmed {
				why = "native run panicked instead: " + trunc(rr.Panic, 200)
			} else {
				why = "native run does not fail this assertion"
			}
		}
		if !confirmed {
			if os.Getenv("VERIF_KEEP_UNCONFIRMED") == "" {
				os.Remove(c.path)
			}
			inconclusive = append(inconclusive, fmt.Sprintf("UNCONFIRMED counter-example for %q in %s: %s", c.v.Msg, c.spec.Entry, why))
			continue
		}
		if kid := knownID(c.v.Msg); kid != "" {
			if desc, ok := kf.known[id+"/"+kid]; ok {
				if !knownSeen[kid] {
					knownSeen[kid] = true
					lines = append(lines, "KNOWN-FINDING: "+desc)
				}
				os.Remove(c.path)
				continue
			}
		}
		violations++
		lines = append(lines, fmt.Sprintf("VIOLATION property=%s replay=%s", id, c.path))
		lines = append(lines, fmt.Sprintf("  entry=%s assertion=%q inputs=%s", c.spec.Entry, c.v.Msg, trunc(mustJSON(c.v.Script), 1200)))
		exit = 1
	}
	for _, sv := range schedViolations {
		violations++
		p := filepath.Join(*verif, "replays", id, fmt.Sprintf("schedule_%d.json", violations))
		os.MkdirAll(filepath.Dir(p), 0755)
		os.WriteFile(p, []byte(mustJSON(map[string]string{"race": sv})), 0644)
		lines = append(lines, fmt.Sprintf("VIOLATION property=%s replay=%s", id, p))
		lines = append(lines, "  "+sv)
		exit = 1
	}

	// ---- evidence ----
	var fnames []string
	hashCache := map[string][]byte{}
	type encFn struct {
		Name string `json:"name"`
		Src  string `json:"src,omitempty"`
		Hash string `json:"sha256_prefix,omitempty"`
	}
	var enc []encFn
	for f := range funcs {
		fnames = append(fnames, f)
	}
	sort.Strings(fnames)
	byName := map[string]*ssa.Function{}
	for fn := range ssautilAllFunctions(ld.prog) {
		byName[fn.String()] = fn
	}
	for _, n := range fnames {
		if !strings.Contains(n, "goNEAT") && !strings.Contains(n, "gonum") {
			continue
		}
		e := encFn{Name: n}
		if fn := byName[n]; fn != nil {
			e.Hash, e.Src = ld.funcHash(fn, hashCache)
		}
		enc = append(enc, e)
	}
	var stubList []string
	for s := range stubs {
		stubList = append(stubList, fmt.Sprintf("%s: %s (%d calls)", s, stubDoc[s], stubs[s]))
	}
	sort.Strings(stubList)
	if len(samples) == 0 {
		samples = append(samples, map[string]interface{}{"note": "no satisfiable sample path was recorded"})
	}
	incSet := map[string]int{}
	for _, s := range inconclusive {
		incSet[s]++
	}
	var incList []string
	for s, n := range incSet {
		incList = append(incList, fmt.Sprintf("%dx %s", n, s))
	}
	sort.Strings(incList)
	ev := map[string]interface{}{
		"property_id": id,
		"tier":        *tier,
		"seed":        seed,
		"level":       "model_checking",
		"coverage": map[string]interface{}{
			"states":                        totalPaths,
			"transitions":                   totalBranches,
			"traces_validated_against_impl": totalValidated,
			"samples":                       samples,
			"obligations":                   totalObl,
			"discharged":                    totalDis,
			"exhaustive":                    len(inconclusive) == 0,
			"explanation":                   "states = complete symbolic paths of the real code (each covers ALL values of its symbolic inputs); transitions = branch decisions; obligations = solver queries for assertions/panics; discharged = those answered unsat",
			"entries":                       reports,
			"functions_encoded":             enc,
			"stubs_and_axioms":              stubList,
			"solver_queries":                totalQueries,
			"solver_time_s":                 solverTime.Seconds(),
			"load_and_ssa_build_s":          loadT.Seconds(),
			"inconclusive":                  incList,
			"outside_bounds":                spec.Outside,
			"known_findings_reported":       len(knownSeen),
		},
		"assumptions": spec.Assumptions,
		"wall_s":      time.Since(t0).Seconds(),
		"violations":  violations,
	}
	if !*noEvidence {
		os.MkdirAll(filepath.Join(*verif, "evidence"), 0755)
		b, _ := json.MarshalIndent(ev, "", " ")
		os.WriteFile(filepath.Join(*verif, "evidence", id+".json"), b, 0644)
	}
	for _, l := range lines {
		fmt.Println(l)
	}
	if exit == 0 && len(inconclusive) > 0 {
		for _, s := range incList {
			fmt.Printf("INCONCLUSIVE property=%s %s\n", id, trunc(s, 1500))
		}
		exit = 2
	}
	fmt.Printf("property=%s tier=%s entries=%d paths=%d obligations=%d discharged=%d solver_queries=%d solver_time=%.1fs validated_traces=%d wall=%.1fs exit=%d\n",
		id, *tier, len(reports), totalPaths, totalObl, totalDis, totalQueries, solverTime.Seconds(), totalValidated, time.Since(t0).Seconds(), exit)
	return exit
}

func mustJSON(v interface{}) string {
	b, _ := json.Marshal(v)
	return string(b)
}

func compareObs(engine []ObservedVal, native []ObservedVal, tol float64) string {
	if tol <= 0 {
		tol = 1e-9
	}
	// eqf.* observations are internal to the engine
	var eng []ObservedVal
	for _, o := range engine {
		if !strings.HasPrefix(o.Tag, "eqf.") {
			eng = append(eng, o)
		}
	}
	if len(eng) != len(native) {
		return fmt.Sprintf("engine recorded %d observations, native run %d", len(eng), len(native))
	}
	for i := range eng {
		e, n := eng[i], native[i]
		if e.Tag != n.Tag {
			return fmt.Sprintf("observation %d: tag %q vs %q", i, e.Tag, n.Tag)
		}
		switch e.Sort {
		case "Int":
			if e.I != n.I {
				return fmt.Sprintf("observation %q: engine %d, native %d", e.Tag, e.I, n.I)
			}
		case "Bool":
			if e.B != n.B {
				return fmt.Sprintf("observation %q: engine %v, native %v", e.Tag, e.B, n.B)
			}
		case "Float":
			if e.UF {
				continue
			}
			d := math.Abs(e.F - n.F)
			if d > tol*math.Max(math.Abs(e.F), math.Abs(n.F)) && d > 1e-9 {
				return fmt.Sprintf("observation %q: engine %v, native %v", e.Tag, e.F, n.F)
			}
		}
	}
	return ""
}

func cmdReplay(repo, root, verif, id, path string) int {
	b, err := os.ReadFile(path)
	if err != nil {
		fmt.Println("cannot read replay file:", err)
		return 2
	}
	var rf struct {
		Entry  string      `json:"entry"`
		Dir    string      `json:"dir"`
		Script []ScriptVal `json:"script"`
		Tol    float64     `json:"tol"`
		Real   bool        `json:"real_model"`
	}
	if err := json.Unmarshal(b, &rf); err != nil {
		fmt.Println("bad replay file:", err)
		return 2
	}
	tmp := filepath.Join(os.TempDir(), fmt.Sprintf("gosym-replay-%d.json", os.Getpid()))
	defer os.Remove(tmp)
	job := ReplayJob{Dir: rf.Dir, Entry: rf.Entry, Script: rf.Script, Tol: rf.Tol, Path: tmp, Real: rf.Real}
	race := false
	if specB, err := os.ReadFile(filepath.Join(verif, "checks", id+".json")); err == nil {
		// the entry's native redirects and race-detector setting come from the check spec
		var spec CheckSpec
		if json.Unmarshal(specB, &spec) == nil {
			for _, es := range spec.Entries {
				if es.Entry == rf.Entry {
					job.Rename, job.NativeFiles, race = es.NativeRename, es.NativeFiles, es.Race
				}
			}
		}
	}
	res, log, err := RunReplays(repo, root, []ReplayJob{job}, race, 10*time.Minute)
	if err != nil || res[tmp] == nil {
		fmt.Println("replay failed:", err, log)
		return 2
	}
	rr := res[tmp]
	fmt.Printf("entry=%s failures=%q panic=%q diverged=%q\n", rr.Entry, rr.Failures, trunc(rr.Panic, 300), rr.Diverged)
	for _, o := range rr.Observed {
		fmt.Printf("  observed %s = %v %v %v %s\n", o.Tag, o.F, o.I, o.B, o.Val)
	}
	if rr.Stack != "" {
		fmt.Println(rr.Stack)
	}
	if len(rr.Failures) > 0 || rr.Panic != "" {
		fmt.Printf("VIOLATION property=%s replay=%s\n", id, path)
		return 1
	}
	return 0
}
