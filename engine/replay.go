package main

// Native replay: solver models become scripts; the same harness is compiled with the ordinary Go tool chain
// against /repo's working tree (go test -overlay) and run on those scripts. Used (a) to confirm every
// counter-example before it is reported and (b) to validate the translator on witness paths.

import (
	"bufio"
	"bytes"
	"encoding/json"
	"fmt"
	"os"
	"os/exec"
	"path/filepath"
	"regexp"
	"runtime"
	"sort"
	"strings"
	"time"
)

type ReplayJob struct {
	Dir         string
	Entry       string
	Script      []ScriptVal
	Tol         float64
	Real        bool                // produced under the R-model
	NativeFiles []string            // *_replayonly.go harness files to include (native replacements of renamed functions)
	Rename      map[string][]string // repo file -> top-level functions renamed to <name>__verif_orig natively (same-package redirects)
	Path        string              // where the script is (to be) stored
}

type ReplayResult struct {
	File     string        `json:"file"`
	Entry    string        `json:"entry"`
	Failures []string      `json:"failures"`
	Diverged string        `json:"diverged"`
	Panic    string        `json:"panic"`
	Stack    string        `json:"stack"`
	Observed []ObservedVal `json:"observed"`
	Reached  []string      `json:"reached"`
	Consumed int           `json:"consumed"`
	Cut      string        `json:"cut"`
}

var entryRe = regexp.MustCompile(`(?m)^func (V[A-Za-z0-9_]+)\(\)`)

func patchRand(goroot string) ([]byte, error) {
	src, err := os.ReadFile(filepath.Join(goroot, "src/math/rand/rand.go"))
	if err != nil {
		return nil, err
	}
	s := string(src)
	rep := func(sig, body string) {
		if !strings.Contains(s, sig) {
			panic("math/rand source does not contain " + sig)
		}
		s = strings.Replace(s, sig, sig+" "+body, 1)
	}
	rep("func Int() int {", `if VerifHook != nil && !VerifBypass { _, i := VerifHook("rand.Int"); return int(i) };`)
	rep("func Int63n(n int64) int64 {", `if VerifHook != nil && !VerifBypass { _, i := VerifHook("rand.Int63n"); return i };`)
	rep("func Int31n(n int32) int32 {", `if VerifHook != nil && !VerifBypass { _, i := VerifHook("rand.Int31n"); return int32(i) };`)
	rep("func Intn(n int) int {", `if VerifHook != nil && !VerifBypass { _, i := VerifHook("rand.Intn"); return int(i) };`)
	rep("func Float64() float64 {", `if VerifHook != nil && !VerifBypass { f, _ := VerifHook("rand.Float64"); return f };`)
	rep("func Float32() float32 {", `if VerifHook != nil && !VerifBypass { f, _ := VerifHook("rand.Float32"); return float32(f) };`)
	rep("func NormFloat64() float64 {", `if VerifHook != nil && !VerifBypass { f, _ := VerifHook("rand.NormFloat64"); return f };`)
	s += "\n// VerifHook scripts the top-level functions during counter-example replay (overlay only).\nvar VerifHook func(kind string) (float64, int64)\n\n// VerifBypass: the real generator answers (sections that run real goroutines).\nvar VerifBypass bool\n"
	return []byte(s), nil
}

// RunReplays executes the jobs natively, grouped by package directory. redirects maps dir -> list of
// "file|funcdecl-regexp|newname" source rewrites (used to stub callees natively as the engine did).
func RunReplays(repo, root string, jobs []ReplayJob, race bool, timeout time.Duration) (map[string]*ReplayResult, string, error) {
	out := map[string]*ReplayResult{}
	if len(jobs) == 0 {
		return out, "", nil
	}
	scratch, err := os.MkdirTemp("", "gosym-replay-")
	if err != nil {
		return nil, "", err
	}
	defer os.RemoveAll(scratch)
	gorootB, err := exec.Command("go", "env", "GOROOT").Output()
	if err != nil {
		return nil, "", err
	}
	goroot := strings.TrimSpace(string(gorootB))
	randSrc, err := patchRand(goroot)
	if err != nil {
		return nil, "", err
	}
	randPath := filepath.Join(scratch, "rand.go")
	os.WriteFile(randPath, randSrc, 0644)

	byDir := map[string][]ReplayJob{}
	dirOf := map[string]string{}
	for _, j := range jobs {
		rk, _ := json.Marshal(j.Rename)
		key := j.Dir + "|" + string(rk) + "|" + strings.Join(j.NativeFiles, ",")
		byDir[key] = append(byDir[key], j)
		dirOf[key] = j.Dir
	}
	var dirs []string
	for d := range byDir {
		dirs = append(dirs, d)
	}
	sort.Strings(dirs)
	var logs strings.Builder
	for di, dkey := range dirs {
		d := dirOf[dkey]
		ov, _, err := buildOverlay(repo, root, []string{d}, true, scratch)
		if err != nil {
			return nil, "", err
		}
		// *_replayonly.go files define native replacements for renamed functions: only with a rename request
		withRename := false
		for _, j := range byDir[dkey] {
			if len(j.Rename) > 0 {
				withRename = true
			}
		}
		wanted := map[string]bool{}
		for _, j := range byDir[dkey] {
			for _, f := range j.NativeFiles {
				wanted["zz_verif_"+f] = true
			}
		}
		for v := range ov {
			if strings.HasSuffix(v, "_replayonly.go") && !(withRename && (len(wanted) == 0 || wanted[filepath.Base(v)])) {
				delete(ov, v)
			}
		}
		replace := map[string]string{filepath.Join(goroot, "src/math/rand/rand.go"): randPath}
		var entries []string
		pkgName := ""
		k := 0
		for v, src := range ov {
			k++
			if m := pkgClause.FindSubmatch(src); m != nil {
				pkgName = string(m[1])
			}
			for _, m := range entryRe.FindAllSubmatch(src, -1) {
				entries = append(entries, string(m[1]))
			}
			real := filepath.Join(scratch, fmt.Sprintf("d%d_%d_%s", di, k, filepath.Base(v)))
			os.WriteFile(real, src, 0644)
			replace[v] = real
		}
		// same-package redirects: rename the original function; a *_replayonly.go harness file defines the replacement
		ri := 0
		for _, j := range byDir[dkey] {
			for file, fns := range j.Rename {
				v := filepath.Join(repo, file)
				if _, done := replace[v]; done {
					continue
				}
				src, err := os.ReadFile(v)
				if err != nil {
					return nil, "", err
				}
				txt := string(src)
				for _, fn := range fns {
					var re *regexp.Regexp
					var repl string
					if i := strings.Index(fn, "."); i > 0 { // method: "Recv.Name"
						recv, name := fn[:i], fn[i+1:]
						re = regexp.MustCompile(`(?m)^func \((\w+) (\*?)` + regexp.QuoteMeta(recv) + `\) ` + regexp.QuoteMeta(name) + `\(`)
						repl = "func (${1} ${2}" + recv + ") " + name + "__verif_orig("
					} else {
						re = regexp.MustCompile(`(?m)^func ` + regexp.QuoteMeta(fn) + `\(`)
						repl = "func " + fn + "__verif_orig("
					}
					if !re.MatchString(txt) {
						return nil, "", fmt.Errorf("native redirect: func %s not found in %s", fn, file)
					}
					txt = re.ReplaceAllString(txt, repl)
				}
				ri++
				real := filepath.Join(scratch, fmt.Sprintf("d%d_rename%d.go", di, ri))
				os.WriteFile(real, []byte(txt), 0644)
				replace[v] = real
			}
		}
		sort.Strings(entries)
		var tb strings.Builder
		fmt.Fprintf(&tb, "package %s\n\nimport \"testing\"\n\nfunc TestVerifReplay(t *testing.T) {\n\tvRunReplays(map[string]func(){\n", pkgName)
		for _, e := range entries {
			fmt.Fprintf(&tb, "\t\t%q: %s,\n", e, e)
		}
		tb.WriteString("\t})\n}\n")
		testReal := filepath.Join(scratch, fmt.Sprintf("d%d_replay_test.go", di))
		os.WriteFile(testReal, []byte(tb.String()), 0644)
		replace[filepath.Join(repo, d, "zz_verif_replay_test.go")] = testReal
		ovJSON, _ := json.Marshal(map[string]interface{}{"Replace": replace})
		ovPath := filepath.Join(scratch, fmt.Sprintf("overlay%d.json", di))
		os.WriteFile(ovPath, ovJSON, 0644)

		var list strings.Builder
		for _, j := range byDir[dkey] {
			b, _ := json.MarshalIndent(map[string]interface{}{"entry": j.Entry, "script": j.Script, "tol": j.Tol, "dir": j.Dir, "real_model": j.Real}, "", " ")
			os.MkdirAll(filepath.Dir(j.Path), 0755)
			if err := os.WriteFile(j.Path, b, 0644); err != nil {
				return nil, "", err
			}
			list.WriteString(j.Path + "\n")
		}
		listPath := filepath.Join(scratch, fmt.Sprintf("list%d.txt", di))
		os.WriteFile(listPath, []byte(list.String()), 0644)

		args := []string{"test", "-vet=off", "-count=1", "-run", "^TestVerifReplay$", "-overlay", ovPath, "-timeout", fmt.Sprintf("%ds", int(timeout.Seconds()))}
		if race {
			args = append(args, "-race")
		}
		args = append(args, "-v", "./"+d)
		cmd := exec.Command("go", args...)
		cmd.Dir = repo
		cmd.Env = append(os.Environ(), "GOFLAGS=-mod=mod", "GOPROXY=off", "GOSUMDB=off", "GOTOOLCHAIN=local", "VERIF_REPLAY="+listPath, fmt.Sprintf("GOMAXPROCS=%d", runtime.NumCPU()))
		if race {
			cmd.Env = append(cmd.Env, "VERIF_REPLAY_REPEAT=40")
		}
		var buf bytes.Buffer
		cmd.Stdout = &buf
		cmd.Stderr = &buf
		done := make(chan error, 1)
		go func() { done <- cmd.Run() }()
		select {
		case <-done:
		case <-time.After(timeout + 60*time.Second):
			cmd.Process.Kill()
			<-done
			logs.WriteString("replay build/run timed out\n")
		}
		if f := os.Getenv("VERIF_REPLAY_LOG"); f != "" {
			os.WriteFile(f, buf.Bytes(), 0644)
		}
		sc := bufio.NewScanner(bytes.NewReader(buf.Bytes()))
		sc.Buffer(make([]byte, 1<<20), 1<<26)
		n := 0
		// a race report belongs to the script that was running when the detector printed it: the scripts run one after
		// the other in one process and each prints its result line when it ends
		var raceText strings.Builder
		inRace := false
		for sc.Scan() {
			line := sc.Text()
			if strings.Contains(line, "WARNING: DATA RACE") {
				inRace = true
			}
			if inRace && raceText.Len() < 1500 {
				raceText.WriteString(line + "\n")
			}
			if i := strings.Index(line, "VERIF-REPLAY-RESULT "); i >= 0 {
				rr := &ReplayResult{}
				if err := json.Unmarshal([]byte(line[i+len("VERIF-REPLAY-RESULT "):]), rr); err == nil {
					out[rr.File] = rr
					n++
					if inRace {
						rr.Failures = append(rr.Failures, "DATA RACE")
						rr.Stack = trunc(raceText.String(), 1500)
					}
				}
				inRace = false
				raceText.Reset()
			}
		}
		if n < len(byDir[dkey]) {
			logs.WriteString(fmt.Sprintf("replay of %s: %d of %d results; output:\n%s\n", d, n, len(byDir[dkey]), trunc(buf.String(), 4000)))
		}
	}
	return out, logs.String(), nil
}
