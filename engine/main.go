package main

import (
	"encoding/json"
	"flag"
	"fmt"
	"os"
	"runtime"
	"sort"
	"strings"
	"time"
)

func defaultConfig() *Config {
	return &Config{Solver: "z3", TimeoutMs: 60000, MaxEnum: 64, MaxDepth: 200, MaxSteps: 5_000_000, Unwind: 64, MaxPaths: 2_000_000,
		Workers: runtime.NumCPU(), InitPrefixes: []string{"github.com/yaricom/goNEAT"}, CheckOverflow: false}
}

func main() {
	if len(os.Args) < 2 {
		fmt.Fprintln(os.Stderr, "usage: gosym run|check ...")
		os.Exit(2)
	}
	switch os.Args[1] {
	case "run":
		cmdRun(os.Args[2:])
	case "check":
		os.Exit(cmdCheck(os.Args[2:]))
	default:
		fmt.Fprintln(os.Stderr, "unknown command", os.Args[1])
		os.Exit(2)
	}
}

// cmdRun explores one harness entry and prints a summary (development aid).
func cmdRun(args []string) {
	fs := flag.NewFlagSet("run", flag.ExitOnError)
	repo := fs.String("repo", "/repo", "repository root")
	root := fs.String("harness", "/verif/harness", "harness root")
	dir := fs.String("dir", "neat/genetics", "package directory of the entry")
	entry := fs.String("entry", "", "entry function")
	fmode := fs.Bool("F", false, "IEEE float model")
	solver := fs.String("solver", "z3", "solver")
	workers := fs.Int("j", runtime.NumCPU(), "workers")
	unwind := fs.Int("unwind", 64, "unwinding bound")
	maxPaths := fs.Int("maxpaths", 2000000, "path limit")
	timeout := fs.Int("timeout", 60000, "per-query timeout ms")
	forkMap := fs.Bool("forkmap", false, "fork over map iteration orders")
	verbose := fs.Bool("v", false, "verbose")
	noMerge := fs.Bool("nomerge", false, "disable state merging")
	fs.Parse(args)
	t0 := time.Now()
	ld, err := Load(*repo, *root)
	if err != nil {
		fmt.Fprintln(os.Stderr, err)
		os.Exit(2)
	}
	fmt.Printf("loaded in %v\n", time.Since(t0))
	pkg := ld.pkgs[*dir]
	if pkg == nil {
		fmt.Fprintln(os.Stderr, "no package for dir", *dir, "have", len(ld.pkgs))
		os.Exit(2)
	}
	fn := pkg.Func(*entry)
	if fn == nil {
		fmt.Fprintln(os.Stderr, "no entry", *entry)
		os.Exit(2)
	}
	cfg := defaultConfig()
	cfg.FMode = *fmode
	cfg.Solver = *solver
	cfg.Workers = *workers
	cfg.Unwind = *unwind
	cfg.MaxPaths = *maxPaths
	cfg.TimeoutMs = *timeout
	cfg.ForkMapOrder = *forkMap
	cfg.NoMerge = *noMerge
	res := Explore(ld.prog, fn, initFns(pkg), cfg)
	printResult(res, *verbose)
}

func printResult(res *RunResult, verbose bool) {
	fmt.Printf("entry %s: paths=%d ends=%v branches=%d steps=%d wall=%v\n", res.Entry, res.Paths, res.Ends, res.Branches, res.Steps, res.Wall.Round(time.Millisecond))
	fmt.Printf("  solver: %+v\n", res.Solver)
	fmt.Printf("  obligations=%d discharged=%d violations=%d inconclusive=%d ndSources=%d\n", res.Obligations, res.Discharged, len(res.Violations), len(res.Inconclusive), res.NdSources)
	fmt.Printf("  reached=%v merges=%d mergeAborts=%d evalSkips=%d\n", res.Reached, res.Merges, res.MergeAborts, res.EvalSkips)
	for _, k := range sortedCountKeys(res.EndMsgs) {
		fmt.Printf("  end: %dx %s\n", res.EndMsgs[k], k)
	}
	for _, k := range sortedCountKeys(res.Notes) {
		fmt.Printf("  note: %dx %s\n", res.Notes[k], k)
	}
	seen := map[string]int{}
	for _, s := range res.Inconclusive {
		seen[s]++
	}
	for _, k := range sortedCountKeys(seen) {
		fmt.Printf("  inconclusive: %dx %s\n", seen[k], k)
	}
	vm := map[string][]*Violation{}
	for _, v := range res.Violations {
		vm[v.Msg] = append(vm[v.Msg], v)
	}
	var ks []string
	for k := range vm {
		ks = append(ks, k)
	}
	sort.Strings(ks)
	for _, k := range ks {
		v := vm[k][0]
		b, _ := json.Marshal(v.Script)
		ob, _ := json.Marshal(v.Observed)
		fmt.Printf("  VIOL %dx %q\n     inputs=%s\n     observed=%s\n", len(vm[k]), k, trunc(string(b), 1500), trunc(string(ob), 600))
	}
	if verbose {
		var fs []string
		for f := range res.Funcs {
			fs = append(fs, f)
		}
		sort.Strings(fs)
		fmt.Printf("  functions: %s\n", strings.Join(fs, "\n    "))
		fmt.Printf("  stubs: %v\n", res.Stubs)
	}
}
