package main

// Evaluation of terms under a solver model. Used to skip feasibility queries whose answer the last model
// already witnesses (a model that satisfies PC ∧ c proves that branch feasible without asking again).

import (
	"math"
	"math/big"
)

type evalVal struct {
	b bool
	i int64
	r *big.Rat
	f float64
}

type Model map[*Term]evalVal

// eval returns the value of t under m; ok=false when the value cannot be determined locally
// (uninterpreted functions, division by zero in the R-model, missing variables).
func (tb *TB) eval(t *Term, m Model, memo map[*Term]evalVal) (evalVal, bool) {
	if v, ok := memo[t]; ok {
		return v, true
	}
	var res evalVal
	ok := true
	arg := func(i int) evalVal {
		v, o := tb.eval(t.args[i], m, memo)
		if !o {
			ok = false
		}
		return v
	}
	switch t.op {
	case OConst:
		switch t.sort {
		case SBool:
			res.b = t.b
		case SInt:
			res.i = t.i
		default:
			if tb.fmode {
				res.f = t.f
			} else {
				if t.spec != spNone {
					return res, false
				}
				res.r = t.r
			}
		}
	case OVar:
		v, has := m[t]
		if !has {
			return res, false
		}
		res = v
	case ONot:
		res.b = !arg(0).b
	case OAnd:
		a := arg(0)
		if !ok {
			return res, false
		}
		if !a.b {
			res.b = false
		} else {
			res.b = arg(1).b
		}
	case OOr:
		a := arg(0)
		if !ok {
			return res, false
		}
		if a.b {
			res.b = true
		} else {
			res.b = arg(1).b
		}
	case OIte:
		c := arg(0)
		if !ok {
			return res, false
		}
		if c.b {
			res = arg(1)
		} else {
			res = arg(2)
		}
	case OEq, OLt, OLe:
		a, b := arg(0), arg(1)
		if !ok {
			return res, false
		}
		var c int
		un := false
		switch t.args[0].sort {
		case SBool:
			if t.op != OEq {
				return res, false
			}
			res.b = a.b == b.b
			memo[t] = res
			return res, true
		case SInt:
			switch {
			case a.i < b.i:
				c = -1
			case a.i > b.i:
				c = 1
			}
		default:
			if tb.fmode {
				if math.IsNaN(a.f) || math.IsNaN(b.f) {
					un = true
				} else if a.f < b.f {
					c = -1
				} else if a.f > b.f {
					c = 1
				}
			} else {
				c = a.r.Cmp(b.r)
			}
		}
		switch t.op {
		case OEq:
			res.b = !un && c == 0
		case OLt:
			res.b = !un && c < 0
		case OLe:
			res.b = !un && c <= 0
		}
	case OAdd, OSub, OMul:
		a, b := arg(0), arg(1)
		if !ok {
			return res, false
		}
		if t.sort == SInt {
			switch t.op {
			case OAdd:
				res.i = a.i + b.i
			case OSub:
				res.i = a.i - b.i
			case OMul:
				res.i = a.i * b.i
			}
		} else if tb.fmode {
			switch t.op {
			case OAdd:
				res.f = a.f + b.f
			case OSub:
				res.f = a.f - b.f
			case OMul:
				res.f = a.f * b.f
			}
		} else {
			res.r = new(big.Rat)
			switch t.op {
			case OAdd:
				res.r.Add(a.r, b.r)
			case OSub:
				res.r.Sub(a.r, b.r)
			case OMul:
				res.r.Mul(a.r, b.r)
			}
		}
	case ODiv:
		a, b := arg(0), arg(1)
		if !ok {
			return res, false
		}
		if t.sort == SInt {
			if b.i == 0 {
				return res, false
			}
			res.i = a.i / b.i
		} else if tb.fmode {
			res.f = a.f / b.f
		} else {
			if b.r.Sign() == 0 {
				return res, false
			}
			res.r = new(big.Rat).Quo(a.r, b.r)
		}
	case ORem:
		a, b := arg(0), arg(1)
		if !ok || b.i == 0 {
			return res, false
		}
		res.i = a.i % b.i
	case ONeg:
		a := arg(0)
		if !ok {
			return res, false
		}
		if t.sort == SInt {
			res.i = -a.i
		} else if tb.fmode {
			res.f = -a.f
		} else {
			res.r = new(big.Rat).Neg(a.r)
		}
	case OAbs:
		a := arg(0)
		if !ok {
			return res, false
		}
		if t.sort == SInt {
			res.i = a.i
			if res.i < 0 {
				res.i = -res.i
			}
		} else if tb.fmode {
			res.f = math.Abs(a.f)
		} else {
			res.r = new(big.Rat).Abs(a.r)
		}
	case OI2F:
		a := arg(0)
		if !ok {
			return res, false
		}
		if tb.fmode {
			res.f = float64(a.i)
		} else {
			res.r = new(big.Rat).SetInt64(a.i)
		}
	case OF2I:
		a := arg(0)
		if !ok {
			return res, false
		}
		if tb.fmode {
			if math.IsNaN(a.f) || math.Abs(a.f) > 9e18 {
				return res, false
			}
			res.i = int64(a.f)
		} else {
			q := new(big.Int).Quo(a.r.Num(), a.r.Denom())
			if !q.IsInt64() {
				return res, false
			}
			res.i = q.Int64()
		}
	case OFloor:
		a := arg(0)
		if !ok {
			return res, false
		}
		if tb.fmode {
			res.f = math.Floor(a.f)
		} else {
			q := new(big.Int).Div(a.r.Num(), a.r.Denom())
			res.r = new(big.Rat).SetInt(q)
		}
	case OIsNaN:
		a := arg(0)
		if !ok {
			return res, false
		}
		res.b = math.IsNaN(a.f)
	case OIsInf:
		a := arg(0)
		if !ok {
			return res, false
		}
		res.b = math.IsInf(a.f, 0)
	case OSignbit:
		a := arg(0)
		if !ok {
			return res, false
		}
		res.b = math.Signbit(a.f)
	case OSqrt:
		a := arg(0)
		if !ok || !tb.fmode {
			return res, false
		}
		res.f = math.Sqrt(a.f)
	default:
		return res, false
	}
	if !ok {
		return res, false
	}
	memo[t] = res
	return res, true
}

func modelFromVals(ts []*Term, vals []ModelVal, fmode bool) Model {
	m := Model{}
	for i, t := range ts {
		v := vals[i]
		if v.Alg {
			continue
		}
		ev := evalVal{b: v.B, i: v.I, f: v.F}
		if t.sort == SFloat && !fmode {
			if v.R == nil {
				continue
			}
			ev.r = v.R
		}
		m[t] = ev
	}
	return m
}
