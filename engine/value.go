package main

// Run-time values of the symbolic interpreter: concrete heap shape, symbolic scalar contents.

import (
	"fmt"
	"go/types"

	"golang.org/x/tools/go/ssa"
)

type Value interface{}

// Object is a heap cell tree with concrete identity.
type Object struct {
	id    int
	v     Value
	typ   types.Type
	label string
}

// Ptr addresses a (sub-)cell of an object. obj == nil is the nil pointer.
type Ptr struct {
	obj  *Object
	path []int
}

type StructV struct{ f []Value }
type ArrayV struct{ e []Value }

// SliceV is a concrete window on a backing array object (whose v is *ArrayV).
type SliceV struct {
	arr      *Object
	off      int
	length   int
	capacity int
}

type MapV struct {
	id   int
	keys []Value
	vals []Value
	typ  *types.Map
}

type Iface struct {
	t types.Type // dynamic type; nil => nil interface
	v Value
}

type Closure struct {
	fn   *ssa.Function
	free []Value
}

type Tuple []Value

type ChanV struct {
	id     int
	closed *Term // symbolic "closed" flag (re-read on each select)
	// when fresh is set, every poll draws a new symbolic flag named after it
	fresh string
	once  bool // once closed stays closed
	was   *Term
	// message queue (go-statement mode: threads run to completion one after the other, so a send never blocks
	// within the capacity and a receive finds its message or the closed flag)
	buf        []Value
	cap        int
	sent, rcvd int
}

// Opaque stands for a value the engine does not model (formatted strings, encoder state ...).
type Opaque struct{ why string }

type MapIter struct {
	m     *MapV
	order []int
	pos   int
	str   string
	isStr bool
}

func (p Ptr) isNil() bool { return p.obj == nil }

func ptrEq(a, b Ptr) bool {
	if a.obj != b.obj || len(a.path) != len(b.path) {
		return false
	}
	for i := range a.path {
		if a.path[i] != b.path[i] {
			return false
		}
	}
	return true
}

func (p Ptr) sub(i int) Ptr {
	np := make([]int, len(p.path)+1)
	copy(np, p.path)
	np[len(p.path)] = i
	return Ptr{p.obj, np}
}

func (p Ptr) cell() *Value {
	cur := &p.obj.v
	for _, i := range p.path {
		switch c := (*cur).(type) {
		case *StructV:
			cur = &c.f[i]
		case *ArrayV:
			if i < 0 || i >= len(c.e) {
				panic(pathEnd{kind: endPanic, msg: "index out of range (pointer into array)"})
			}
			cur = &c.e[i]
		default:
			panic(fmt.Sprintf("cell: cannot index %T", *cur))
		}
	}
	return cur
}

func copyVal(v Value) Value {
	switch x := v.(type) {
	case *StructV:
		n := &StructV{f: make([]Value, len(x.f))}
		for i, f := range x.f {
			n.f[i] = copyVal(f)
		}
		return n
	case *ArrayV:
		n := &ArrayV{e: make([]Value, len(x.e))}
		for i, f := range x.e {
			n.e[i] = copyVal(f)
		}
		return n
	}
	return v
}

func (p Ptr) load() Value     { return copyVal(*p.cell()) }
func (p Ptr) store(v Value)   { *p.cell() = copyVal(v) }
func (s SliceV) at(i int) Ptr { return Ptr{s.arr, []int{s.off + i}} }

func (p Ptr) String() string {
	if p.obj == nil {
		return "nil"
	}
	return fmt.Sprintf("&o%d%v", p.obj.id, p.path)
}

// typeSizes used for append growth.
var stdSizes = types.StdSizes{WordSize: 8, MaxAlign: 8}

var sizeClasses = []int{8, 16, 24, 32, 48, 64, 80, 96, 112, 128, 144, 160, 176, 192, 208, 224, 240, 256, 288, 320, 352, 384, 416, 448, 480, 512, 576, 640, 704, 768, 896, 1024, 1152, 1280, 1408, 1536, 1792, 2048, 2304, 2688, 3072, 3200, 3456, 4096, 4864, 5376, 6144, 6528, 6784, 6912, 8192, 9472, 9728, 10240, 10880, 12288, 13568, 14336, 16384, 18432, 19072, 20480, 21760, 24576, 27264, 28672, 32768}

func roundupsize(n int) int {
	for _, c := range sizeClasses {
		if n <= c {
			return c
		}
	}
	return (n + 8191) / 8192 * 8192
}

// growCap mirrors runtime.growslice (Go 1.20+) for the new capacity.
func growCap(oldCap, newLen int, elemSize int) int {
	newcap := oldCap
	doublecap := newcap + newcap
	if newLen > doublecap {
		newcap = newLen
	} else {
		const threshold = 256
		if oldCap < threshold {
			newcap = doublecap
		} else {
			for newcap < newLen {
				newcap += (newcap + 3*threshold) >> 2
			}
		}
	}
	if elemSize <= 0 {
		return newcap
	}
	mem := roundupsize(newcap * elemSize)
	return mem / elemSize
}
