package main

// Speculative merging of side-effect-light branch regions into ite terms (state merging).
// At an If on a symbolic condition whose two sides re-join at the immediate post-dominator and consist only of
// pure instructions and stores of scalars, both sides are executed speculatively against a store buffer and
// the join's phis / the stored cells become (ite c then else). Anything else (calls, allocation, symbolic
// indices, possible panics, integer-valued merges that would make later indices symbolic) aborts the attempt
// and the engine forks as usual. Merging changes only the NUMBER of paths, never the set of behaviours.

import (
	"fmt"
	"go/token"
	"go/types"
	"os"
	"sync"

	"golang.org/x/tools/go/ssa"
)

type specAbort struct{ why string }

var mergeLog = os.Getenv("GOSYM_MERGELOG") != ""

var (
	pdomMu    sync.Mutex
	pdomCache = map[*ssa.Function]map[*ssa.BasicBlock]*ssa.BasicBlock{}
)

// ipdoms computes immediate post-dominators of a function's blocks (nil = exit).
func ipdoms(fn *ssa.Function) map[*ssa.BasicBlock]*ssa.BasicBlock {
	pdomMu.Lock()
	defer pdomMu.Unlock()
	if m, ok := pdomCache[fn]; ok {
		return m
	}
	n := len(fn.Blocks)
	// post-dominator sets as bitsets over block indices; index n = virtual exit
	full := make([]bool, n+1)
	for i := range full {
		full[i] = true
	}
	pd := make([][]bool, n+1)
	for i := 0; i <= n; i++ {
		pd[i] = append([]bool{}, full...)
	}
	pd[n] = make([]bool, n+1)
	pd[n][n] = true
	succs := func(b *ssa.BasicBlock) []int {
		if len(b.Succs) == 0 {
			return []int{n}
		}
		var r []int
		for _, s := range b.Succs {
			r = append(r, s.Index)
		}
		return r
	}
	changed := true
	for changed {
		changed = false
		for i := n - 1; i >= 0; i-- {
			b := fn.Blocks[i]
			nw := append([]bool{}, full...)
			for _, s := range succs(b) {
				for k := range nw {
					nw[k] = nw[k] && pd[s][k]
				}
			}
			nw[i] = true
			for k := range nw {
				if nw[k] != pd[i][k] {
					changed = true
				}
			}
			pd[i] = nw
		}
	}
	res := map[*ssa.BasicBlock]*ssa.BasicBlock{}
	for i := 0; i < n; i++ {
		// ipdom = the strict post-dominator that is post-dominated by all other strict post-dominators
		var cand []int
		for k := 0; k < n; k++ {
			if k != i && pd[i][k] {
				cand = append(cand, k)
			}
		}
		for _, c := range cand {
			ok := true
			for _, d := range cand {
				if d != c && !pd[c][d] {
					ok = false
					break
				}
			}
			if ok {
				res[fn.Blocks[i]] = fn.Blocks[c]
				break
			}
		}
	}
	pdomCache[fn] = res
	return res
}

type storeBuf struct {
	parent *storeBuf
	m      map[string]Value
	ptrs   map[string]Ptr
	order  []string
}

func newStoreBuf(parent *storeBuf) *storeBuf {
	return &storeBuf{parent: parent, m: map[string]Value{}, ptrs: map[string]Ptr{}}
}

func (sb *storeBuf) lookup(key string) (Value, bool) {
	for b := sb; b != nil; b = b.parent {
		if v, ok := b.m[key]; ok {
			return v, true
		}
	}
	return nil, false
}

// overlaps reports whether a buffered store touches a different-granularity cell of the same object.
func (sb *storeBuf) overlaps(p Ptr) bool {
	for b := sb; b != nil; b = b.parent {
		for k, q := range b.ptrs {
			if q.obj != p.obj || k == locOf(p) {
				continue
			}
			n := len(q.path)
			if len(p.path) < n {
				n = len(p.path)
			}
			pre := true
			for i := 0; i < n; i++ {
				if q.path[i] != p.path[i] {
					pre = false
					break
				}
			}
			if pre {
				return true
			}
		}
	}
	return false
}

func (sb *storeBuf) put(p Ptr, v Value) {
	k := locOf(p)
	if _, ok := sb.m[k]; !ok {
		sb.order = append(sb.order, k)
	}
	sb.m[k] = v
	sb.ptrs[k] = p
}

func (in *Interp) specLoad(sb *storeBuf, p Ptr) Value {
	if sb.overlaps(p) {
		panic(specAbort{"aggregate/partial overlap in store buffer"})
	}
	if v, ok := sb.lookup(locOf(p)); ok {
		return copyVal(v)
	}
	return p.load()
}

var pureCalls = map[string]bool{
	"math.Abs": true, "math.Floor": true, "math.Ceil": true, "math.Trunc": true, "math.Sqrt": true, "math.IsNaN": true, "math.Signbit": true,
	"math.Exp": true, "math.Tanh": true, "math.Sin": true, "math.Cos": true, "math.Log": true, "math.Pow": true, "math.IsInf": true,
	"math.Inf": true, "math.NaN": true, "math.Mod": true,
}

var pureHarness = map[string]bool{"vAnd": true, "vOr": true, "vImplies": true, "vIteF": true, "vIteI": true, "vSymbolic": true}

// mergeVals builds ite(c, a, b) for values, or fails.
func (in *Interp) mergeVals(c *Term, a, b Value) Value {
	ta, ok1 := a.(*Term)
	tb, ok2 := b.(*Term)
	if ok1 && ok2 {
		if ta == tb {
			return ta
		}
		if ta.sort == SInt && !in.cfg.MergeInts {
			panic(specAbort{"integer-valued merge"})
		}
		return in.tb.Ite(c, ta, tb)
	}
	switch x := a.(type) {
	case Ptr:
		if y, ok := b.(Ptr); ok && ptrEq(x, y) {
			return a
		}
	case string:
		if y, ok := b.(string); ok && x == y {
			return a
		}
	case SliceV:
		if y, ok := b.(SliceV); ok && x == y {
			return a
		}
	case Iface:
		if y, ok := b.(Iface); ok && x.t == nil && y.t == nil {
			return a
		}
	}
	panic(specAbort{"non-scalar merge"})
}

// tryMerge attempts to merge the region between an If in block b and its post-dominator.
func (in *Interp) tryMerge(fr *frame, b *ssa.BasicBlock, c *Term) (join *ssa.BasicBlock, ok bool) {
	if in.cfg.NoMerge || in.specDepth > 0 {
		return nil, false
	}
	j := ipdoms(fr.fn)[b]
	if j == nil {
		return nil, false
	}
	// speculation works on a copy of the register file: an aborted attempt must leave no trace
	saved := fr.env
	work := make(map[ssa.Value]Value, len(saved)+16)
	for k, v := range saved {
		work[k] = v
	}
	fr.env = work
	in.specRoot = b
	defer func() {
		if r := recover(); r != nil {
			in.specDepth = 0
			fr.env = saved
			switch r.(type) {
			case specAbort:
				join, ok = nil, false
				in.mergeAborts++
			case pathEnd:
				join, ok = nil, false
				in.mergeAborts++
			default:
				panic(r)
			}
		}
	}()
	in.specDepth = 1
	budget := 400
	sb := newStoreBuf(nil)
	vals := in.specIf(fr, b, c, j, sb, &budget, 0)
	in.specDepth = 0
	// commit
	for _, k := range sb.order {
		p := sb.ptrs[k]
		if in.access != nil {
			in.access.record(p, true, "merged store")
		}
		if mergeLog {
			fmt.Fprintf(os.Stderr, "   store %s := %v\n", k, sb.m[k])
		}
		p.store(sb.m[k])
	}
	nphi := 0
	for _, instr := range j.Instrs {
		phi, isPhi := instr.(*ssa.Phi)
		if !isPhi {
			break
		}
		fr.env[phi] = vals[nphi]
		nphi++
	}
	in.merges++
	if mergeLog && os.Getenv("GOSYM_MERGELOG") == "2" {
		fr.fn.WriteTo(os.Stderr)
	}
	if mergeLog {
		fmt.Fprintf(os.Stderr, "MERGE %s block %d (%s) -> %d cond=%s stores=%d\n", fr.fn.String(), b.Index, b.Comment, j.Index, trunc(c.String(), 80), len(sb.order))
	}
	return j, true
}

// specIf merges both sides of the If ending block b up to join j; returns values for j's phis.
func (in *Interp) specIf(fr *frame, b *ssa.BasicBlock, c *Term, j *ssa.BasicBlock, sb *storeBuf, budget *int, depth int) []Value {
	if depth > 6 {
		panic(specAbort{"nesting"})
	}
	sbT, sbF := newStoreBuf(sb), newStoreBuf(sb)
	vT := in.specRun(fr, b.Succs[0], b, j, sbT, budget, depth)
	vF := in.specRun(fr, b.Succs[1], b, j, sbF, budget, depth)
	// merge store buffers
	keys := append([]string{}, sbT.order...)
	for _, k := range sbF.order {
		if _, ok := sbT.m[k]; !ok {
			keys = append(keys, k)
		}
	}
	for _, k := range keys {
		var p Ptr
		if q, ok := sbT.ptrs[k]; ok {
			p = q
		} else {
			p = sbF.ptrs[k]
		}
		cur := func() Value {
			if v, ok := sb.lookup(k); ok {
				return v
			}
			if sb.overlaps(p) {
				panic(specAbort{"overlap"})
			}
			return p.load()
		}
		a, okT := sbT.m[k]
		if !okT {
			a = cur()
		}
		bb, okF := sbF.m[k]
		if !okF {
			bb = cur()
		}
		sb.put(p, in.mergeVals(c, a, bb))
	}
	out := make([]Value, len(vT))
	for i := range vT {
		out[i] = in.mergeVals(c, vT[i], vF[i])
	}
	return out
}

func phiIncoming(in *Interp, fr *frame, j, pred *ssa.BasicBlock) []Value {
	idx := -1
	for i, p := range j.Preds {
		if p == pred {
			idx = i
			break
		}
	}
	var out []Value
	for _, instr := range j.Instrs {
		phi, ok := instr.(*ssa.Phi)
		if !ok {
			break
		}
		if idx < 0 {
			panic(specAbort{"no edge"})
		}
		out = append(out, in.get(fr, phi.Edges[idx]))
	}
	return out
}

// specRun executes blocks from start (entered from 'from') until j; returns the values flowing into j's phis.
func (in *Interp) specRun(fr *frame, start, from, j *ssa.BasicBlock, sb *storeBuf, budget *int, depth int) []Value {
	cur, prev := start, from
	visited := map[*ssa.BasicBlock]bool{}
	phisDone := false
	for cur != j {
		if visited[cur] || cur.Dominates(in.specRoot) {
			// re-entering a block that dominates the branch means following a loop back-edge: values defined
			// there (loop phis) would need merging too, which this scheme does not do
			panic(specAbort{"loop"})
		}
		visited[cur] = true
		nphi := 0
		if !phisDone {
			vals := phiIncoming(in, fr, cur, prev)
			for i, v := range vals {
				fr.env[cur.Instrs[i].(*ssa.Phi)] = v
			}
			nphi = len(vals)
		} else {
			for _, instr := range cur.Instrs {
				if _, ok := instr.(*ssa.Phi); !ok {
					break
				}
				nphi++
			}
		}
		phisDone = false
		var next *ssa.BasicBlock
		for _, instr := range cur.Instrs[nphi:] {
			*budget--
			if *budget < 0 {
				panic(specAbort{"budget"})
			}
			switch x := instr.(type) {
			case *ssa.Jump:
				next = cur.Succs[0]
			case *ssa.If:
				c := in.term(in.get(fr, x.Cond), "if")
				if c.IsConst() {
					if c.b {
						next = cur.Succs[0]
					} else {
						next = cur.Succs[1]
					}
					break
				}
				j2 := ipdoms(fr.fn)[cur]
				if j2 == nil {
					panic(specAbort{"no join"})
				}
				vals := in.specIf(fr, cur, c, j2, sb, budget, depth+1)
				if j2 == j {
					return vals
				}
				// j2 must lie inside this region; continue from it with its phis set
				i := 0
				for _, ins2 := range j2.Instrs {
					phi, ok := ins2.(*ssa.Phi)
					if !ok {
						break
					}
					fr.env[phi] = vals[i]
					i++
				}
				next = j2
				phisDone = true
			case *ssa.BinOp:
				if x.Op == token.QUO || x.Op == token.REM {
					if isIntT(x.X.Type()) {
						if d, ok := in.get(fr, x.Y).(*Term); !ok || !d.IsConst() || d.i == 0 {
							panic(specAbort{"integer division"})
						}
					}
				}
				fr.env[x] = in.binop(x.Op, in.get(fr, x.X), in.get(fr, x.Y), x.X.Type(), "")
			case *ssa.UnOp:
				if x.Op == token.ARROW {
					panic(specAbort{"receive"})
				}
				if x.Op == token.MUL {
					p := in.ptr(in.get(fr, x.X), "")
					if in.access != nil {
						in.access.record(p, false, "merged load")
					}
					fr.env[x] = in.specLoad(sb, p)
				} else {
					fr.env[x] = in.unop(fr, x)
				}
			case *ssa.Store:
				p := in.ptr(in.get(fr, x.Addr), "")
				v := in.get(fr, x.Val)
				switch v.(type) {
				case *Term, Ptr, string, SliceV:
				default:
					panic(specAbort{"aggregate store"})
				}
				if sb.overlaps(p) {
					panic(specAbort{"overlap"})
				}
				sb.put(p, v)
			case *ssa.FieldAddr:
				fr.env[x] = in.ptr(in.get(fr, x.X), "").sub(x.Field)
			case *ssa.Field:
				fr.env[x] = in.get(fr, x.X).(*StructV).f[x.Field]
			case *ssa.IndexAddr:
				idx, ok := in.get(fr, x.Index).(*Term)
				if !ok || !idx.IsConst() {
					panic(specAbort{"symbolic index"})
				}
				in.exec(fr, x)
			case *ssa.Index:
				idx, ok := in.get(fr, x.Index).(*Term)
				if !ok || !idx.IsConst() {
					panic(specAbort{"symbolic index"})
				}
				in.exec(fr, x)
			case *ssa.Convert, *ssa.ChangeType, *ssa.Extract, *ssa.ChangeInterface, *ssa.DebugRef:
				in.exec(fr, x)
			case *ssa.Call:
				if b, isB := x.Call.Value.(*ssa.Builtin); isB {
					if b.Name() != "len" && b.Name() != "cap" {
						panic(specAbort{"builtin"})
					}
					in.exec(fr, x)
					break
				}
				callee := x.Call.StaticCallee()
				if callee == nil || x.Call.IsInvoke() {
					panic(specAbort{"dynamic call"})
				}
				name := callee.String()
				if !(pureCalls[name] || (callee.Blocks == nil && pureHarness[callee.Name()])) {
					panic(specAbort{"call " + name})
				}
				in.exec(fr, x)
			default:
				_ = types.Typ
				panic(specAbort{"instruction"})
			}
		}
		if next == nil {
			panic(specAbort{"no successor"})
		}
		prev, cur = cur, next
	}
	if phisDone {
		panic(specAbort{"join reached with phis preset"})
	}
	return phiIncoming(in, fr, j, prev)
}
