package main

// Intrinsics: the harness API (v* functions without bodies) and stubs for library code that is
// assembly, reflection or I/O. Every stub is part of the claim and is listed in the evidence.

import (
	"fmt"
	"go/types"
	"math"
	"math/bits"
	"strings"

	"golang.org/x/tools/go/ssa"
)

type intrinsicFn func(in *Interp, fn *ssa.Function, args []Value) Value

var intrinsics map[string]intrinsicFn

// stubDoc documents each stub for the evidence file.
var stubDoc = map[string]string{}

func reg(name, doc string, f intrinsicFn) {
	intrinsics[name] = f
	stubDoc[name] = doc
}

func (in *Interp) usedStub(name string) { in.w.stubsUsed[name]++ }

func (in *Interp) randFloat(label string) *Term {
	t := in.newNondet(label, label, SFloat)
	in.addPC(in.tb.Le(in.tb.Float(0), t))
	in.addPC(in.tb.Lt(t, in.tb.Float(1)))
	return t
}

func (in *Interp) randIntn(label string, n *Term) *Term {
	if in.branch(in.tb.Le(n, in.tb.Int(0))) {
		in.goPanic("invalid argument to %s", label)
	}
	t := in.newNondet(label, label, SInt)
	in.addPC(in.tb.Le(in.tb.Int(0), t))
	in.addPC(in.tb.Lt(t, n))
	if in.randSameOn {
		// stated bound of the harness (vRandSameInts): every integer draw of this section returns the same value
		if in.randSameFirst == nil {
			in.randSameFirst = t
		} else {
			in.addPC(in.tb.Eq(t, in.randSameFirst))
		}
	}
	return t
}

func (in *Interp) newError(msg Value) Value {
	pkg := in.prog.ImportedPackage("errors")
	if pkg == nil {
		in.unsupported("package errors not loaded")
	}
	named := pkg.Type("errorString").Type()
	o := in.newObject(named, &StructV{f: []Value{msg}}, "error")
	return Iface{t: types.NewPointer(named), v: Ptr{obj: o}}
}

func ufAxioms(tb *TB, name string, apps []*Term) []string {
	var out []string
	p := func(t *Term) string { return tb.Print(t) }
	if tb.fmode {
		for _, a := range apps {
			e := p(a)
			x := p(a.args[0])
			switch name {
			case "exp":
				// exp(x) is never NaN for non-NaN x, is >= +0, and exp(x) <= 1 iff x <= 0
				out = append(out, fmt.Sprintf("(=> (not (fp.isNaN %s)) (and (not (fp.isNaN %s)) (fp.geq %s (_ +zero 11 53)) (not (fp.isNegative %s))))", x, e, e, e))
				out = append(out, fmt.Sprintf("(=> (fp.leq %s (_ +zero 11 53)) (fp.leq %s %s))", x, e, smtFP(1)))
				out = append(out, fmt.Sprintf("(=> (fp.geq %s (_ +zero 11 53)) (fp.geq %s %s))", x, e, smtFP(1)))
				// overflow / underflow thresholds of math.Exp (exp(709.78...) is the largest finite value, exp(-745.13...) the smallest non-zero)
				out = append(out, fmt.Sprintf("(=> (fp.isInfinite %s) (fp.gt %s %s))", e, x, smtFP(709)))
				out = append(out, fmt.Sprintf("(=> (fp.gt %s %s) (fp.isInfinite %s))", x, smtFP(710), e))
				out = append(out, fmt.Sprintf("(=> (fp.isZero %s) (fp.lt %s %s))", e, x, smtFP(-745)))
				out = append(out, fmt.Sprintf("(=> (fp.lt %s %s) (fp.isZero %s))", x, smtFP(-746), e))
			case "tanh":
				out = append(out, fmt.Sprintf("(=> (not (fp.isNaN %s)) (and (fp.geq %s %s) (fp.leq %s %s)))", x, e, smtFP(-1), e, smtFP(1)))
			case "sin", "cos":
				out = append(out, fmt.Sprintf("(=> (not (fp.isInfinite %s)) (=> (not (fp.isNaN %s)) (and (fp.geq %s %s) (fp.leq %s %s))))", x, x, e, smtFP(-1), e, smtFP(1)))
			}
		}
		if name == "exp" || name == "tanh" {
			for i := 0; i < len(apps); i++ {
				for j := 0; j < len(apps); j++ {
					if i != j {
						out = append(out, fmt.Sprintf("(=> (fp.leq %s %s) (fp.leq %s %s))", p(apps[i].args[0]), p(apps[j].args[0]), p(apps[i]), p(apps[j])))
					}
				}
			}
		}
		return out
	}
	for _, a := range apps {
		e := p(a)
		x := p(a.args[0])
		switch name {
		case "exp":
			out = append(out, fmt.Sprintf("(> %s 0.0)", e))
			out = append(out, fmt.Sprintf("(= (<= %s 0.0) (<= %s 1.0))", x, e))
			out = append(out, fmt.Sprintf("(= (= %s 0.0) (= %s 1.0))", x, e))
		case "tanh":
			out = append(out, fmt.Sprintf("(and (> %s (- 1.0)) (< %s 1.0))", e, e))
			out = append(out, fmt.Sprintf("(= (<= %s 0.0) (<= %s 0.0))", x, e))
			out = append(out, fmt.Sprintf("(= (= %s 0.0) (= %s 0.0))", x, e))
		case "sin", "cos":
			out = append(out, fmt.Sprintf("(and (>= %s (- 1.0)) (<= %s 1.0))", e, e))
		case "log":
			out = append(out, fmt.Sprintf("(= (<= %s 1.0) (<= %s 0.0))", x, e))
		}
	}
	if name == "exp" {
		// exp(x) * exp(-x) = 1
		for i := 0; i < len(apps); i++ {
			for j := i + 1; j < len(apps); j++ {
				out = append(out, fmt.Sprintf("(=> (= (+ %s %s) 0.0) (= (* %s %s) 1.0))", p(apps[i].args[0]), p(apps[j].args[0]), p(apps[i]), p(apps[j])))
			}
		}
	}
	if name == "exp" || name == "tanh" || name == "log" {
		for i := 0; i < len(apps); i++ {
			for j := 0; j < len(apps); j++ {
				if i != j {
					out = append(out, fmt.Sprintf("(=> (< %s %s) (< %s %s))", p(apps[i].args[0]), p(apps[j].args[0]), p(apps[i]), p(apps[j])))
				}
			}
		}
	}
	return out
}

func init() {
	intrinsics = map[string]intrinsicFn{}
	f0 := func(a []Value, in *Interp, i int) *Term { return in.term(a[i], "intrinsic arg") }

	// ---- math/rand: the seeded stream is an explicit sequence of symbolic values ----
	reg("math/rand.Float64", "fresh symbolic value in [0,1)", func(in *Interp, fn *ssa.Function, a []Value) Value {
		return in.randFloat("rand.Float64")
	})
	reg("math/rand.Float32", "fresh symbolic value in [0,1) (float32 rounding not modelled)", func(in *Interp, fn *ssa.Function, a []Value) Value {
		return in.randFloat("rand.Float32")
	})
	reg("math/rand.Intn", "fresh symbolic int in [0,n)", func(in *Interp, fn *ssa.Function, a []Value) Value {
		return in.randIntn("rand.Intn", f0(a, in, 0))
	})
	reg("math/rand.Int31n", "fresh symbolic int in [0,n)", func(in *Interp, fn *ssa.Function, a []Value) Value {
		return in.randIntn("rand.Int31n", f0(a, in, 0))
	})
	reg("math/rand.Int63n", "fresh symbolic int in [0,n)", func(in *Interp, fn *ssa.Function, a []Value) Value {
		return in.randIntn("rand.Int63n", f0(a, in, 0))
	})
	reg("math/rand.Int", "fresh symbolic int in [0,2^62)", func(in *Interp, fn *ssa.Function, a []Value) Value {
		t := in.newNondet("rand.Int", "rand.Int", SInt)
		in.addPC(in.tb.Le(in.tb.Int(0), t))
		in.addPC(in.tb.Lt(t, in.tb.Int(1<<62)))
		return t
	})
	reg("math/rand.NormFloat64", "fresh symbolic float in [-8,8] (tail beyond 8 sigma outside the claim)", func(in *Interp, fn *ssa.Function, a []Value) Value {
		t := in.newNondet("rand.NormFloat64", "rand.NormFloat64", SFloat)
		in.addPC(in.tb.Le(in.tb.Float(-8), t))
		in.addPC(in.tb.Le(t, in.tb.Float(8)))
		return t
	})
	reg("math/rand.Seed", "no-op (the stream is symbolic)", func(in *Interp, fn *ssa.Function, a []Value) Value { return nil })

	// ---- math ----
	un := func(name, doc string, f func(in *Interp, x *Term) Value) {
		reg("math."+name, doc, func(in *Interp, fn *ssa.Function, a []Value) Value { return f(in, f0(a, in, 0)) })
	}
	un("Abs", "|x| by ite", func(in *Interp, x *Term) Value { return in.tb.Abs(x) })
	un("Floor", "R: to_int; F: roundToIntegral RTN", func(in *Interp, x *Term) Value { return in.tb.Floor(x) })
	un("Ceil", "-floor(-x)", func(in *Interp, x *Term) Value { return in.tb.Neg(in.tb.Floor(in.tb.Neg(x))) })
	un("Trunc", "truncate toward zero", func(in *Interp, x *Term) Value {
		tb := in.tb
		return tb.Ite(tb.Le(tb.Float(0), x), tb.Floor(x), tb.Neg(tb.Floor(tb.Neg(x))))
	})
	un("Sqrt", "R: r>=0 and r*r=x; F: fp.sqrt", func(in *Interp, x *Term) Value { return in.tb.Sqrt(x) })
	un("IsNaN", "R: syntactic; F: fp.isNaN", func(in *Interp, x *Term) Value { return in.tb.IsNaN(x) })
	un("Signbit", "R: x<0; F: fp.isNegative", func(in *Interp, x *Term) Value { return in.tb.Signbit(x) })
	for _, n := range []string{"Exp", "Tanh", "Sin", "Cos", "Log"} {
		name := strings.ToLower(n)
		un(n, "uninterpreted function with sign/range/monotonicity axioms (see ufAxioms)", func(in *Interp, x *Term) Value {
			if x.IsConst() && in.tb.fmode {
				var r float64
				switch name {
				case "exp":
					r = math.Exp(x.f)
				case "tanh":
					r = math.Tanh(x.f)
				case "sin":
					r = math.Sin(x.f)
				case "cos":
					r = math.Cos(x.f)
				case "log":
					r = math.Log(x.f)
				}
				return in.tb.Float(r)
			}
			if x.IsConst() && !in.tb.fmode && x.spec == spNone && x.r.Sign() == 0 {
				switch name {
				case "exp", "cos":
					return in.tb.Float(1)
				case "tanh", "sin":
					return in.tb.Float(0)
				}
			}
			return in.tb.UF(name, x)
		})
	}
	reg("math.Pow", "x^2 = x*x, x^1 = x, x^0 = 1; otherwise uninterpreted", func(in *Interp, fn *ssa.Function, a []Value) Value {
		x, y := f0(a, in, 0), f0(a, in, 1)
		tb := in.tb
		if y.IsConst() {
			var yf float64
			if tb.fmode {
				yf = y.f
			} else if y.spec == spNone {
				yf, _ = y.r.Float64()
			}
			if x.IsConst() && tb.fmode {
				return tb.Float(math.Pow(x.f, yf))
			}
			switch yf {
			case 2:
				return tb.Mul(x, x)
			case 1:
				return x
			case 0:
				return tb.Float(1)
			}
		}
		return tb.UF("pow", x, y)
	})
	reg("math.IsInf", "R: syntactic; F: fp.isInfinite with sign", func(in *Interp, fn *ssa.Function, a []Value) Value {
		x, s := f0(a, in, 0), f0(a, in, 1)
		tb := in.tb
		if !s.IsConst() {
			in.unsupported("math.IsInf with symbolic sign")
		}
		inf := tb.IsInf(x)
		switch {
		case s.i > 0:
			return tb.And(inf, tb.Not(tb.Signbit(x)))
		case s.i < 0:
			return tb.And(inf, tb.Signbit(x))
		}
		return inf
	})
	reg("math.Inf", "infinite constant", func(in *Interp, fn *ssa.Function, a []Value) Value {
		s := f0(a, in, 0)
		if !s.IsConst() {
			in.unsupported("math.Inf with symbolic sign")
		}
		if s.i >= 0 {
			return in.tb.Float(math.Inf(1))
		}
		return in.tb.Float(math.Inf(-1))
	})
	reg("math.NaN", "NaN constant", func(in *Interp, fn *ssa.Function, a []Value) Value { return in.tb.Float(math.NaN()) })
	reg("math.Max", "Go's math.max (pure Go reference implementation) executed as code", func(in *Interp, fn *ssa.Function, a []Value) Value {
		if !in.tb.fmode {
			x, y := f0(a, in, 0), f0(a, in, 1)
			return in.tb.Ite(in.tb.Lt(x, y), y, x)
		}
		return in.callFn(fn.Pkg.Func("max"), a, nil)
	})
	reg("math.Min", "Go's math.min (pure Go reference implementation) executed as code", func(in *Interp, fn *ssa.Function, a []Value) Value {
		if !in.tb.fmode {
			x, y := f0(a, in, 0), f0(a, in, 1)
			return in.tb.Ite(in.tb.Lt(y, x), y, x)
		}
		return in.callFn(fn.Pkg.Func("min"), a, nil)
	})
	reg("math.Mod", "R-model: x - y*trunc(x/y)", func(in *Interp, fn *ssa.Function, a []Value) Value {
		x, y := f0(a, in, 0), f0(a, in, 1)
		tb := in.tb
		if tb.fmode {
			if x.IsConst() && y.IsConst() {
				return tb.Float(math.Mod(x.f, y.f))
			}
			in.unsupported("math.Mod in the F-model")
		}
		q := tb.Div(x, y)
		tq := tb.Ite(tb.Le(tb.Float(0), q), tb.Floor(q), tb.Neg(tb.Floor(tb.Neg(q))))
		return tb.Sub(x, tb.Mul(y, tq))
	})
	reg("math/bits.Len", "concrete", func(in *Interp, fn *ssa.Function, a []Value) Value {
		x := f0(a, in, 0)
		if !x.IsConst() {
			in.unsupported("bits.Len of symbolic value")
		}
		return in.tb.Int(int64(bits.Len(uint(x.i))))
	})

	// ---- fmt / errors / log: no formatting ----
	opaqueStr := func(in *Interp, fn *ssa.Function, a []Value) Value { return Opaque{"formatted string"} }
	for _, n := range []string{"fmt.Sprintf", "fmt.Sprint", "fmt.Sprintln"} {
		reg(n, "returns an opaque string (formatting is not the subject of any property)", opaqueStr)
	}
	wr := func(in *Interp, fn *ssa.Function, a []Value) Value { return Tuple{in.tb.Int(0), Iface{}} }
	for _, n := range []string{"fmt.Fprintf", "fmt.Fprint", "fmt.Fprintln", "fmt.Printf", "fmt.Println", "fmt.Print"} {
		reg(n, "output dropped, returns (0, nil)", wr)
	}
	mkErr := func(in *Interp, fn *ssa.Function, a []Value) Value { return in.newError(Opaque{"error text"}) }
	reg("fmt.Errorf", "returns a fresh non-nil error", mkErr)
	reg("github.com/pkg/errors.New", "returns a fresh non-nil error", mkErr)
	reg("github.com/pkg/errors.Errorf", "returns a fresh non-nil error", mkErr)
	wrap := func(in *Interp, fn *ssa.Function, a []Value) Value {
		if e, ok := a[0].(Iface); ok && e.t == nil {
			return Iface{}
		}
		return in.newError(Opaque{"wrapped error"})
	}
	reg("github.com/pkg/errors.Wrap", "nil for nil, otherwise a fresh non-nil error", wrap)
	reg("github.com/pkg/errors.Wrapf", "nil for nil, otherwise a fresh non-nil error", wrap)
	reg("github.com/pkg/errors.WithMessage", "nil for nil, otherwise a fresh non-nil error", wrap)
	reg("errors.Is", "identity comparison along no Unwrap chain (the errors used by the harnesses are plain values)", func(in *Interp, fn *ssa.Function, a []Value) Value {
		return in.valuesEqual(a[0], a[1], "errors.Is")
	})
	reg("(*log.Logger).Output", "log output dropped", func(in *Interp, fn *ssa.Function, a []Value) Value { return Iface{} })
	reg("log.New", "returns a nil logger (its Output is a stub)", func(in *Interp, fn *ssa.Function, a []Value) Value { return Ptr{} })

	// ---- sync / atomic ----
	reg("(*sync.Mutex).Lock", "mutex acquire: state flag + access-log event; double acquire = deadlock", func(in *Interp, fn *ssa.Function, a []Value) Value {
		p := in.ptr(a[0], "Mutex.Lock")
		st := p.sub(0)
		cur := in.term(st.load(), "mutex state")
		if cur.IsConst() && cur.i != 0 {
			in.goPanic("deadlock: mutex locked twice by the same thread")
		}
		st.store(in.tb.Int(1))
		if in.access != nil {
			in.access.lock(p, true)
		}
		return nil
	})
	reg("(*sync.Mutex).Unlock", "mutex release", func(in *Interp, fn *ssa.Function, a []Value) Value {
		p := in.ptr(a[0], "Mutex.Unlock")
		st := p.sub(0)
		cur := in.term(st.load(), "mutex state")
		if cur.IsConst() && cur.i == 0 {
			in.goPanic("sync: unlock of unlocked mutex")
		}
		st.store(in.tb.Int(0))
		if in.access != nil {
			in.access.lock(p, false)
		}
		return nil
	})
	// ---- sync.Pool: Get hands back an object put earlier or a fresh one - which, depends on GC timing and on the P the
	// goroutine runs on, so it is a nondeterminism source that is forked over (reuse the most recent / call New) ----
	reg("(*sync.Pool).Put", "pool of recycled objects (per Pool value)", func(in *Interp, fn *ssa.Function, a []Value) Value {
		p := in.ptr(a[0], "Pool.Put")
		if in.pools == nil {
			in.pools = map[string][]Value{}
		}
		in.pools[locOf(p)] = append(in.pools[locOf(p)], a[1])
		return nil
	})
	reg("(*sync.Pool).Get", "nondeterminism source: a recycled object or New()", func(in *Interp, fn *ssa.Function, a []Value) Value {
		p := in.ptr(a[0], "Pool.Get")
		key := locOf(p)
		if l := in.pools[key]; len(l) > 0 {
			in.ndSrc++
			if in.choose(2) == 0 {
				v := l[len(l)-1]
				in.pools[key] = l[:len(l)-1]
				return v
			}
		}
		// field New of sync.Pool
		st := fn.Signature.Recv().Type().(*types.Pointer).Elem().Underlying().(*types.Struct)
		for i := 0; i < st.NumFields(); i++ {
			if st.Field(i).Name() == "New" {
				nf := p.sub(i).load()
				if cl, ok := nf.(*Closure); ok && cl != nil {
					return in.callValue(nf, nil, "Pool.New")
				}
				if f, ok := nf.(*ssa.Function); ok && f != nil {
					return in.callValue(nf, nil, "Pool.New")
				}
			}
		}
		return Iface{}
	})
	// ---- WaitGroup (go-statement mode): a counter per WaitGroup; Done and Wait are edges of the schedule query ----
	wgAdd := func(in *Interp, p Ptr, n int, site string) {
		if in.wgCount == nil {
			in.wgCount = map[string]int{}
		}
		in.wgCount[locOf(p)] += n
		if in.wgCount[locOf(p)] < 0 {
			in.goPanic("sync: negative WaitGroup counter")
		}
		if n < 0 && in.access != nil {
			in.access.syncEvent("done", locOf(p), site, 0)
		}
	}
	reg("(*sync.WaitGroup).Add", "WaitGroup counter", func(in *Interp, fn *ssa.Function, a []Value) Value {
		n := in.term(a[1], "WaitGroup.Add")
		if !n.IsConst() {
			in.unsupported("symbolic WaitGroup delta")
		}
		wgAdd(in, in.ptr(a[0], "WaitGroup.Add"), int(n.i), "WaitGroup.Add")
		return nil
	})
	reg("(*sync.WaitGroup).Done", "WaitGroup counter; edge Done -> Wait", func(in *Interp, fn *ssa.Function, a []Value) Value {
		wgAdd(in, in.ptr(a[0], "WaitGroup.Done"), -1, "WaitGroup.Done")
		return nil
	})
	reg("(*sync.WaitGroup).Wait", "returns when the counter is zero (threads run to completion at their go statement); edge Done -> Wait", func(in *Interp, fn *ssa.Function, a []Value) Value {
		p := in.ptr(a[0], "WaitGroup.Wait")
		if in.wgCount[locOf(p)] != 0 {
			in.goPanic("deadlock: WaitGroup.Wait with a counter that no thread will bring to zero")
		}
		if in.access != nil {
			in.access.syncEvent("wait", locOf(p), "WaitGroup.Wait", 0)
		}
		return nil
	})
	atomicAdd := func(in *Interp, fn *ssa.Function, a []Value) Value {
		p := in.ptr(a[0], "atomic.Add")
		if in.access != nil {
			in.access.atomic(p, "atomic.Add")
		}
		n := in.tb.Add(in.term(p.load(), "atomic"), in.term(a[1], "atomic"))
		p.store(n)
		return n
	}
	reg("sync/atomic.AddInt64", "atomic read-modify-write", atomicAdd)
	reg("sync/atomic.AddInt32", "atomic read-modify-write", atomicAdd)
	atomicLoad := func(in *Interp, fn *ssa.Function, a []Value) Value {
		p := in.ptr(a[0], "atomic.Load")
		if in.access != nil {
			in.access.atomic(p, "atomic.Load")
		}
		return p.load()
	}
	reg("sync/atomic.LoadInt64", "atomic load", atomicLoad)
	reg("sync/atomic.LoadInt32", "atomic load", atomicLoad)

	// ---- context: WithValue builds the real valueCtx (its Value method is then executed as code) ----
	reg("context.WithValue", "builds context.valueCtx{parent,key,val} without the reflect-based key check", func(in *Interp, fn *ssa.Function, a []Value) Value {
		named := fn.Pkg.Type("valueCtx").Type()
		o := in.newObject(named, &StructV{f: []Value{a[0], a[1], a[2]}}, "valueCtx")
		return Iface{t: types.NewPointer(named), v: Ptr{obj: o}}
	})

	// ---- time: nondeterminism oracle ----
	reg("time.Now", "oracle: opaque instant", func(in *Interp, fn *ssa.Function, a []Value) Value {
		in.ndSrc++
		return in.zero(fn.Signature.Results().At(0).Type())
	})
	durOracle := func(in *Interp, fn *ssa.Function, a []Value) Value {
		in.ndSrc++
		t := in.newNondet("oracle", "time.duration", SInt)
		in.addPC(in.tb.Le(in.tb.Int(0), t))
		in.addPC(in.tb.Le(t, in.tb.Int(1<<40)))
		return t
	}
	reg("time.Since", "oracle: symbolic non-negative duration", durOracle)
	reg("(time.Time).Sub", "oracle: symbolic non-negative duration", durOracle)
}

// ---------- harness API ----------

func harnessIntrinsic(fn *ssa.Function) intrinsicFn {
	if fn.Signature.Recv() != nil {
		return nil
	}
	switch fn.Name() {
	case "vInt":
		return func(in *Interp, fn *ssa.Function, a []Value) Value {
			return in.newNondet("int", a[0].(string), SInt)
		}
	case "vFloat":
		return func(in *Interp, fn *ssa.Function, a []Value) Value {
			return in.newNondet("float", a[0].(string), SFloat)
		}
	case "vBool":
		return func(in *Interp, fn *ssa.Function, a []Value) Value {
			return in.newNondet("bool", a[0].(string), SBool)
		}
	case "vChoice":
		return func(in *Interp, fn *ssa.Function, a []Value) Value {
			n := in.term(a[1], "vChoice")
			if !n.IsConst() {
				in.unsupported("vChoice with symbolic range")
			}
			// a choice is a nondet int that is immediately concretised, so that replays see it
			k := in.choose(int(n.i))
			t := in.newNondet("choice", a[0].(string), SInt)
			in.addPC(in.tb.Eq(t, in.tb.Int(int64(k))))
			return in.tb.Int(int64(k))
		}
	case "vConcrete":
		return func(in *Interp, fn *ssa.Function, a []Value) Value {
			return in.tb.Int(in.concretize(in.term(a[0], "vConcrete"), "vConcrete"))
		}
	case "vPar":
		// vPar(shared, a, b): two logical threads over a shared heap. The engine runs the bodies one after the other,
		// recording each one's access trace; every interleaving is then covered by the schedule query.
		return func(in *Interp, fn *ssa.Function, a []Value) Value {
			if in.access == nil {
				in.access = &accessLog{}
			}
			objs, maps := map[*Object]bool{}, map[*MapV]bool{}
			in.reachable(a[0], objs, maps)
			run := func(name string, f Value) *ThreadTrace {
				t := &ThreadTrace{Name: name}
				in.access.cur = t
				in.callValue(f, nil, "vPar")
				in.access.cur = nil
				return t
			}
			ta := run("A", a[1])
			tb := run("B", a[2])
			in.reachable(a[0], objs, maps) // objects published into the shared structure by the bodies
			in.parRuns = append(in.parRuns, parRun{A: ta, B: tb, shared: objs})
			return nil
		}
	case "vRandMark":
		return func(in *Interp, fn *ssa.Function, a []Value) Value { return in.tb.Int(int64(len(in.nondets))) }
	case "vRandRewind":
		return func(in *Interp, fn *ssa.Function, a []Value) Value {
			k := in.term(a[0], "vRandRewind")
			in.randReplay = append([]Nondet{}, in.nondets[k.i:]...)
			in.randPos = 0
			return nil
		}
	case "vConcreteBool":
		return func(in *Interp, fn *ssa.Function, a []Value) Value {
			return in.tb.Bool(in.branch(in.term(a[0], "vConcreteBool")))
		}
	case "vAssume":
		return func(in *Interp, fn *ssa.Function, a []Value) Value {
			c := in.term(a[0], "vAssume")
			if c.IsConst() {
				if !c.b {
					panic(pathEnd{endAssume, "assumption false"})
				}
				return nil
			}
			if !in.feasible(c) {
				panic(pathEnd{endAssume, "assumption infeasible"})
			}
			in.addPC(c)
			return nil
		}
	case "vAssert":
		return func(in *Interp, fn *ssa.Function, a []Value) Value {
			in.assert(in.term(a[0], "vAssert"), a[1].(string), "assert", "")
			return nil
		}
	case "vAssertEqF":
		return func(in *Interp, fn *ssa.Function, a []Value) Value {
			x, y := in.term(a[0], "vAssertEqF"), in.term(a[1], "vAssertEqF")
			tb := in.tb
			var c *Term
			if tb.fmode {
				// bit-pattern agnostic: both NaN, or IEEE-equal
				c = tb.Or(tb.And(tb.IsNaN(x), tb.IsNaN(y)), tb.Eq(x, y))
			} else {
				if isSpec(x) || isSpec(y) {
					c = tb.Bool(x == y)
				} else {
					c = tb.Eq(x, y)
				}
			}
			in.observes = append(in.observes, Observation{"eqf.lhs:" + a[2].(string), x}, Observation{"eqf.rhs:" + a[2].(string), y})
			in.assert(c, a[2].(string), "eqf", "")
			in.observes = in.observes[:len(in.observes)-2]
			return nil
		}
	case "vReach":
		return func(in *Interp, fn *ssa.Function, a []Value) Value {
			in.reached[a[0].(string)]++
			return nil
		}
	case "vObserveI", "vObserveF", "vObserveB":
		return func(in *Interp, fn *ssa.Function, a []Value) Value {
			in.observes = append(in.observes, Observation{a[0].(string), in.term(a[1], "vObserve")})
			return nil
		}
	case "vCut":
		return func(in *Interp, fn *ssa.Function, a []Value) Value {
			panic(pathEnd{endCut, a[0].(string)})
		}
	case "vNote":
		return func(in *Interp, fn *ssa.Function, a []Value) Value {
			in.note("harness: " + a[0].(string))
			return nil
		}
	case "vAnd":
		return func(in *Interp, fn *ssa.Function, a []Value) Value {
			return in.tb.And(in.term(a[0], "vAnd"), in.term(a[1], "vAnd"))
		}
	case "vOr":
		return func(in *Interp, fn *ssa.Function, a []Value) Value {
			return in.tb.Or(in.term(a[0], "vOr"), in.term(a[1], "vOr"))
		}
	case "vImplies":
		return func(in *Interp, fn *ssa.Function, a []Value) Value {
			return in.tb.Or(in.tb.Not(in.term(a[0], "vImplies")), in.term(a[1], "vImplies"))
		}
	case "vIteF", "vIteI":
		return func(in *Interp, fn *ssa.Function, a []Value) Value {
			return in.tb.Ite(in.term(a[0], "vIte"), in.term(a[1], "vIte"), in.term(a[2], "vIte"))
		}
	case "vIsConcrete":
		return func(in *Interp, fn *ssa.Function, a []Value) Value {
			t, ok := a[0].(*Term)
			return in.tb.Bool(ok && t.IsConst())
		}
	case "vRandSameInts":
		return func(in *Interp, fn *ssa.Function, a []Value) Value {
			on := in.term(a[0], "vRandSameInts")
			in.randSameOn, in.randSameFirst = on.IsConst() && on.b, nil
			return nil
		}
	case "vRandUnscripted", "vParallelSection":
		return func(in *Interp, fn *ssa.Function, a []Value) Value { return nil }
	case "vRealModel":
		return func(in *Interp, fn *ssa.Function, a []Value) Value { return in.tb.Bool(!in.tb.fmode) }
	case "vSymbolic":
		return func(in *Interp, fn *ssa.Function, a []Value) Value { return in.tb.tru }
	case "vDisjoint":
		return func(in *Interp, fn *ssa.Function, a []Value) Value {
			return in.tb.Bool(in.disjoint(a[0], a[1]))
		}
	case "vChan":
		return func(in *Interp, fn *ssa.Function, a []Value) Value {
			in.nobj++
			return &ChanV{id: in.nobj, fresh: a[0].(string), once: true}
		}
	case "vUF1":
		return func(in *Interp, fn *ssa.Function, a []Value) Value {
			return in.tb.UF("h_"+a[0].(string), in.term(a[1], "vUF1"))
		}
	case "vUF2":
		return func(in *Interp, fn *ssa.Function, a []Value) Value {
			return in.tb.UF("h_"+a[0].(string), in.term(a[1], "vUF2"), in.term(a[2], "vUF2"))
		}
	case "vNondetCount":
		return func(in *Interp, fn *ssa.Function, a []Value) Value {
			return in.tb.Int(int64(in.ndSrc))
		}
	case "vOpaqueString":
		return func(in *Interp, fn *ssa.Function, a []Value) Value { return Opaque{"harness opaque string"} }
	}
	return nil
}

// reachable collects every heap object (and map) reachable from v.
func (in *Interp) reachable(v Value, objs map[*Object]bool, maps map[*MapV]bool) {
	switch x := v.(type) {
	case Ptr:
		if x.obj != nil && !objs[x.obj] {
			objs[x.obj] = true
			in.reachable(x.obj.v, objs, maps)
		}
	case SliceV:
		if x.arr != nil && !objs[x.arr] {
			objs[x.arr] = true
			in.reachable(x.arr.v, objs, maps)
		}
	case *StructV:
		for _, f := range x.f {
			in.reachable(f, objs, maps)
		}
	case *ArrayV:
		for _, f := range x.e {
			in.reachable(f, objs, maps)
		}
	case *MapV:
		if x != nil && !maps[x] {
			maps[x] = true
			for i := range x.keys {
				in.reachable(x.keys[i], objs, maps)
				in.reachable(x.vals[i], objs, maps)
			}
		}
	case Iface:
		in.reachable(x.v, objs, maps)
	case *Closure:
		if x != nil {
			for _, f := range x.free {
				in.reachable(f, objs, maps)
			}
		}
	case Tuple:
		for _, f := range x {
			in.reachable(f, objs, maps)
		}
	}
}

// disjoint reports whether no mutable heap object is reachable from both a and b.
// Objects whose contents are immutable by construction are not exempted: the harness passes
// only the roots it wants compared.
func (in *Interp) disjoint(a, b Value) bool {
	oa, ma := map[*Object]bool{}, map[*MapV]bool{}
	ob, mb := map[*Object]bool{}, map[*MapV]bool{}
	in.reachable(a, oa, ma)
	in.reachable(b, ob, mb)
	for o := range oa {
		if ob[o] {
			in.note(fmt.Sprintf("shared object: %s (%v)", o.label, o.typ))
			return false
		}
	}
	for m := range ma {
		if mb[m] {
			return false
		}
	}
	return true
}
