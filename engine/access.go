package main

// Access log for the C16 schedule query: every load/store/atomic/mutex event of a logical thread.

import "fmt"

type AccessEvent struct {
	Loc    string `json:"loc"`  // heap location: object id + path
	Kind   string `json:"kind"` // read, write, atomic, acquire, release
	Site   string `json:"site"`
	Shared bool   `json:"-"`
	obj    *Object
	Seq    int `json:"-"` // engine execution order
	K      int `json:"-"` // spawn: child thread id; chsend/chrecv: FIFO index of the message
}

type ThreadTrace struct {
	Name   string        `json:"name"`
	Events []AccessEvent `json:"events"`
	id     int
}

type accessLog struct {
	cur    *ThreadTrace
	traces []*ThreadTrace
	shared map[*Object]bool // objects reachable from the shared roots at thread start
	seq    int
}

// syncEvent records a synchronisation event (spawn, done, wait, chsend, chrecv, chclose) of the current thread.
func (a *accessLog) syncEvent(kind, loc, site string, k int) {
	if a.cur == nil {
		return
	}
	a.seq++
	a.cur.Events = append(a.cur.Events, AccessEvent{Loc: loc, Kind: kind, Site: site, K: k, Seq: a.seq})
}

func locOf(p Ptr) string { return fmt.Sprintf("o%d%v", p.obj.id, p.path) }

func (a *accessLog) record(p Ptr, write bool, site string) {
	if a.cur == nil || p.obj == nil {
		return
	}
	if a.shared != nil && !a.shared[p.obj] {
		return
	}
	k := "read"
	if write {
		k = "write"
	}
	a.seq++
	a.cur.Events = append(a.cur.Events, AccessEvent{Loc: locOf(p), Kind: k, Site: site, obj: p.obj, Seq: a.seq})
}

func (a *accessLog) atomic(p Ptr, site string) {
	if a.cur == nil || (a.shared != nil && !a.shared[p.obj]) {
		return
	}
	a.seq++
	a.cur.Events = append(a.cur.Events, AccessEvent{Loc: locOf(p), Kind: "atomic", Site: site, obj: p.obj, Seq: a.seq})
}

func (a *accessLog) lock(p Ptr, acquire bool) {
	if a.cur == nil {
		return
	}
	k := "release"
	if acquire {
		k = "acquire"
	}
	a.seq++
	a.cur.Events = append(a.cur.Events, AccessEvent{Loc: locOf(p), Kind: k, obj: p.obj, Seq: a.seq})
}
