package main

// Term DAG, constant folding and SMT-LIB2 printing.
//
// Sorts: Bool, Int (Go integers, unbounded SMT Int + overflow obligations elsewhere),
// Float (Go float64/float32: SMT Real in the R-model, FloatingPoint 11 53 in the F-model).

import (
	"fmt"
	"math"
	"math/big"
	"sort"
	"strings"
)

type Sort uint8

const (
	SBool Sort = iota
	SInt
	SFloat
)

func (s Sort) String() string { return [...]string{"Bool", "Int", "Float"}[s] }

type Op uint8

const (
	OConst Op = iota
	OVar
	ONot
	OAnd
	OOr
	OIte
	OEq
	OAdd
	OSub
	OMul
	ODiv // ints: Go truncated division; floats: /
	ORem // ints only
	ONeg
	OLt
	OLe
	OI2F     // int -> float
	OF2I     // float -> int, truncation toward zero
	OFloor   // float -> float
	OAbs     // float or int
	OSqrt    // float
	OUF      // uninterpreted function on floats, name in .name
	OIsNaN   // float -> bool
	OIsInf   // float -> bool (either sign)
	OSignbit // float -> bool
)

var opNames = map[Op]string{OConst: "const", OVar: "var", ONot: "not", OAnd: "and", OOr: "or", OIte: "ite", OEq: "=", OAdd: "+", OSub: "-", OMul: "*", ODiv: "/", ORem: "rem", ONeg: "neg", OLt: "<", OLe: "<=", OI2F: "i2f", OF2I: "f2i", OFloor: "floor", OAbs: "abs", OSqrt: "sqrt", OUF: "uf", OIsNaN: "isnan", OIsInf: "isinf", OSignbit: "signbit"}

// float specials (R-model constants only)
const (
	spNone = iota
	spNaN
	spPInf
	spNInf
)

type Term struct {
	id   int
	op   Op
	sort Sort
	args []*Term
	b    bool
	i    int64
	r    *big.Rat // R-model float constant (spec==spNone)
	f    float64  // F-model float constant
	spec int
	name string
}

func (t *Term) IsConst() bool { return t.op == OConst }

// TB is a per-worker term builder with hash-consing.
type TB struct {
	fmode  bool // F-model (IEEE) if true, R-model otherwise
	tab    map[string]*Term
	nextID int
	vars   []*Term
	tru    *Term
	fls    *Term
	// inconclusive notes raised by folding (e.g. arithmetic on NaN in R-model)
	notes map[string]int
}

func NewTB(fmode bool) *TB {
	tb := &TB{fmode: fmode, tab: map[string]*Term{}, notes: map[string]int{}}
	tb.tru = tb.Bool(true)
	tb.fls = tb.Bool(false)
	return tb
}

func (tb *TB) intern(key string, mk func() *Term) *Term {
	if t, ok := tb.tab[key]; ok {
		return t
	}
	t := mk()
	t.id = tb.nextID
	tb.nextID++
	tb.tab[key] = t
	return t
}

func (tb *TB) Bool(b bool) *Term {
	return tb.intern(fmt.Sprintf("cb%v", b), func() *Term { return &Term{op: OConst, sort: SBool, b: b} })
}
func (tb *TB) Int(i int64) *Term {
	return tb.intern(fmt.Sprintf("ci%d", i), func() *Term { return &Term{op: OConst, sort: SInt, i: i} })
}

// Float builds a float constant from a Go float64 (exact in both models).
func (tb *TB) Float(f float64) *Term {
	if tb.fmode {
		return tb.intern(fmt.Sprintf("cF%x", math.Float64bits(f)), func() *Term { return &Term{op: OConst, sort: SFloat, f: f} })
	}
	switch {
	case math.IsNaN(f):
		return tb.floatSpec(spNaN)
	case math.IsInf(f, 1):
		return tb.floatSpec(spPInf)
	case math.IsInf(f, -1):
		return tb.floatSpec(spNInf)
	}
	r := new(big.Rat)
	r.SetFloat64(f)
	return tb.Rat(r)
}
func (tb *TB) floatSpec(s int) *Term {
	return tb.intern(fmt.Sprintf("cS%d", s), func() *Term { return &Term{op: OConst, sort: SFloat, spec: s} })
}
func (tb *TB) Rat(r *big.Rat) *Term {
	if tb.fmode {
		f, _ := r.Float64()
		return tb.Float(f)
	}
	return tb.intern("cr"+r.RatString(), func() *Term { return &Term{op: OConst, sort: SFloat, r: r} })
}

func (tb *TB) Var(name string, s Sort) *Term {
	return tb.intern("v"+name, func() *Term {
		t := &Term{op: OVar, sort: s, name: name}
		tb.vars = append(tb.vars, t)
		return t
	})
}

func (tb *TB) mk(op Op, s Sort, name string, args ...*Term) *Term {
	var sb strings.Builder
	fmt.Fprintf(&sb, "o%d:%s", op, name)
	for _, a := range args {
		fmt.Fprintf(&sb, ",%d", a.id)
	}
	return tb.intern(sb.String(), func() *Term {
		return &Term{op: op, sort: s, args: append([]*Term(nil), args...), name: name}
	})
}

// ---------- boolean ----------

func (tb *TB) Not(a *Term) *Term {
	if a.IsConst() {
		return tb.Bool(!a.b)
	}
	if a.op == ONot {
		return a.args[0]
	}
	return tb.mk(ONot, SBool, "", a)
}
func (tb *TB) And(a, b *Term) *Term {
	if a.IsConst() {
		if a.b {
			return b
		}
		return tb.fls
	}
	if b.IsConst() {
		if b.b {
			return a
		}
		return tb.fls
	}
	if a == b {
		return a
	}
	return tb.mk(OAnd, SBool, "", a, b)
}
func (tb *TB) Or(a, b *Term) *Term {
	if a.IsConst() {
		if a.b {
			return tb.tru
		}
		return b
	}
	if b.IsConst() {
		if b.b {
			return tb.tru
		}
		return a
	}
	if a == b {
		return a
	}
	return tb.mk(OOr, SBool, "", a, b)
}
func (tb *TB) AndN(ts []*Term) *Term {
	r := tb.tru
	for _, t := range ts {
		r = tb.And(r, t)
	}
	return r
}
func (tb *TB) Ite(c, a, b *Term) *Term {
	if c.IsConst() {
		if c.b {
			return a
		}
		return b
	}
	if a == b {
		return a
	}
	if a.sort == SBool {
		return tb.Or(tb.And(c, a), tb.And(tb.Not(c), b))
	}
	return tb.mk(OIte, a.sort, "", c, a, b)
}

// ---------- helpers for float constants ----------

func (tb *TB) fconst(t *Term) (r *big.Rat, f float64, spec int, ok bool) {
	if !t.IsConst() {
		return nil, 0, 0, false
	}
	if tb.fmode {
		return nil, t.f, 0, true
	}
	return t.r, 0, t.spec, true
}

func (tb *TB) note(s string) { tb.notes[s]++ }

// ---------- equality / comparison ----------

func (tb *TB) Eq(a, b *Term) *Term {
	if a.sort != b.sort {
		panic(fmt.Sprintf("Eq sort mismatch %v %v", a.sort, b.sort))
	}
	if a.IsConst() && b.IsConst() {
		switch a.sort {
		case SBool:
			return tb.Bool(a.b == b.b)
		case SInt:
			return tb.Bool(a.i == b.i)
		case SFloat:
			if tb.fmode {
				return tb.Bool(a.f == b.f)
			}
			if a.spec == spNaN || b.spec == spNaN {
				return tb.fls
			}
			if a.spec != spNone || b.spec != spNone {
				return tb.Bool(a.spec == b.spec)
			}
			return tb.Bool(a.r.Cmp(b.r) == 0)
		}
	}
	if a.sort == SFloat && !tb.fmode {
		// a real-valued term never equals NaN / Inf
		if (a.IsConst() && a.spec != spNone) || (b.IsConst() && b.spec != spNone) {
			return tb.fls
		}
	}
	if a == b && (a.sort != SFloat || !tb.fmode) {
		return tb.tru
	}
	if a.sort == SBool {
		if a.IsConst() {
			if a.b {
				return b
			}
			return tb.Not(b)
		}
		if b.IsConst() {
			if b.b {
				return a
			}
			return tb.Not(a)
		}
	}
	if a.id > b.id {
		a, b = b, a
	}
	return tb.mk(OEq, SBool, "", a, b)
}

func (tb *TB) cmpConst(a, b *Term) (int, bool) { // returns cmp, unordered
	if a.sort == SInt {
		switch {
		case a.i < b.i:
			return -1, false
		case a.i > b.i:
			return 1, false
		}
		return 0, false
	}
	if tb.fmode {
		if math.IsNaN(a.f) || math.IsNaN(b.f) {
			return 0, true
		}
		switch {
		case a.f < b.f:
			return -1, false
		case a.f > b.f:
			return 1, false
		}
		return 0, false
	}
	if a.spec == spNaN || b.spec == spNaN {
		return 0, true
	}
	rank := func(t *Term) int {
		switch t.spec {
		case spPInf:
			return 1
		case spNInf:
			return -1
		}
		return 0
	}
	ra, rb := rank(a), rank(b)
	if ra != rb || ra != 0 {
		switch {
		case ra < rb:
			return -1, false
		case ra > rb:
			return 1, false
		}
		return 0, false
	}
	return a.r.Cmp(b.r), false
}

func (tb *TB) Lt(a, b *Term) *Term {
	if a.IsConst() && b.IsConst() {
		c, un := tb.cmpConst(a, b)
		return tb.Bool(!un && c < 0)
	}
	if a.sort == SFloat && !tb.fmode {
		if a.IsConst() && a.spec != spNone {
			return tb.Bool(a.spec == spNInf)
		}
		if b.IsConst() && b.spec != spNone {
			return tb.Bool(b.spec == spPInf)
		}
	}
	if a == b {
		return tb.fls
	}
	return tb.mk(OLt, SBool, "", a, b)
}
func (tb *TB) Le(a, b *Term) *Term {
	if a.IsConst() && b.IsConst() {
		c, un := tb.cmpConst(a, b)
		return tb.Bool(!un && c <= 0)
	}
	if a.sort == SFloat && !tb.fmode {
		if a.IsConst() && a.spec != spNone {
			return tb.Bool(a.spec == spNInf)
		}
		if b.IsConst() && b.spec != spNone {
			return tb.Bool(b.spec == spPInf)
		}
	}
	if a == b && (a.sort != SFloat || !tb.fmode) {
		return tb.tru
	}
	return tb.mk(OLe, SBool, "", a, b)
}
func (tb *TB) Gt(a, b *Term) *Term { return tb.Lt(b, a) }
func (tb *TB) Ge(a, b *Term) *Term { return tb.Le(b, a) }
func (tb *TB) Ne(a, b *Term) *Term { return tb.Not(tb.Eq(a, b)) }

// ---------- arithmetic ----------

func (tb *TB) specArith(op Op, a, b *Term) *Term {
	// R-model arithmetic involving NaN/Inf constants.
	if (a.IsConst() && a.spec == spNaN) || (b != nil && b.IsConst() && b.spec == spNaN) {
		return tb.floatSpec(spNaN)
	}
	tb.note("R-model arithmetic on an infinite constant")
	// best effort: treat as NaN-free infinite propagation for add/sub with finite other side
	inf := a
	if !(a.IsConst() && a.spec != spNone) {
		inf = b
	}
	switch op {
	case OAdd:
		return inf
	case OSub:
		if inf == a {
			return a
		}
		if b.spec == spPInf {
			return tb.floatSpec(spNInf)
		}
		return tb.floatSpec(spPInf)
	}
	return tb.floatSpec(spNaN)
}

func isSpec(t *Term) bool { return t != nil && t.IsConst() && t.sort == SFloat && t.spec != spNone }

func (tb *TB) Add(a, b *Term) *Term {
	if a.sort == SInt {
		if a.IsConst() && b.IsConst() {
			return tb.Int(a.i + b.i)
		}
		if a.IsConst() && a.i == 0 {
			return b
		}
		if b.IsConst() && b.i == 0 {
			return a
		}
		// (x + c1) + c2
		if b.IsConst() && a.op == OAdd && a.args[1].IsConst() {
			return tb.Add(a.args[0], tb.Int(a.args[1].i+b.i))
		}
		if a.IsConst() {
			a, b = b, a
		}
		return tb.mk(OAdd, SInt, "", a, b)
	}
	if !tb.fmode && (isSpec(a) || isSpec(b)) {
		return tb.specArith(OAdd, a, b)
	}
	if a.IsConst() && b.IsConst() {
		if tb.fmode {
			return tb.Float(a.f + b.f)
		}
		return tb.Rat(new(big.Rat).Add(a.r, b.r))
	}
	if !tb.fmode {
		if a.IsConst() && a.r.Sign() == 0 {
			return b
		}
		if b.IsConst() && b.r.Sign() == 0 {
			return a
		}
	}
	return tb.mk(OAdd, SFloat, "", a, b)
}
func (tb *TB) Sub(a, b *Term) *Term {
	if a.sort == SInt {
		if a.IsConst() && b.IsConst() {
			return tb.Int(a.i - b.i)
		}
		if b.IsConst() {
			return tb.Add(a, tb.Int(-b.i))
		}
		if a == b {
			return tb.Int(0)
		}
		return tb.mk(OSub, SInt, "", a, b)
	}
	if !tb.fmode && (isSpec(a) || isSpec(b)) {
		return tb.specArith(OSub, a, b)
	}
	if a.IsConst() && b.IsConst() {
		if tb.fmode {
			return tb.Float(a.f - b.f)
		}
		return tb.Rat(new(big.Rat).Sub(a.r, b.r))
	}
	if !tb.fmode {
		if b.IsConst() && b.r.Sign() == 0 {
			return a
		}
		if a == b {
			return tb.Float(0)
		}
	}
	return tb.mk(OSub, SFloat, "", a, b)
}
func (tb *TB) Mul(a, b *Term) *Term {
	if a.sort == SInt {
		if a.IsConst() && b.IsConst() {
			return tb.Int(a.i * b.i)
		}
		if a.IsConst() {
			a, b = b, a
		}
		if b.IsConst() {
			switch b.i {
			case 0:
				return tb.Int(0)
			case 1:
				return a
			}
		}
		return tb.mk(OMul, SInt, "", a, b)
	}
	if !tb.fmode && (isSpec(a) || isSpec(b)) {
		return tb.specArith(OMul, a, b)
	}
	if a.IsConst() && b.IsConst() {
		if tb.fmode {
			return tb.Float(a.f * b.f)
		}
		return tb.Rat(new(big.Rat).Mul(a.r, b.r))
	}
	if !tb.fmode {
		if a.IsConst() {
			a, b = b, a
		}
		if b.IsConst() {
			if b.r.Sign() == 0 {
				return tb.Float(0)
			}
			if b.r.Cmp(big.NewRat(1, 1)) == 0 {
				return a
			}
		}
	}
	return tb.mk(OMul, SFloat, "", a, b)
}

// Div: for ints the caller is responsible for the zero-divisor panic obligation.
func (tb *TB) Div(a, b *Term) *Term {
	if a.sort == SInt {
		if a.IsConst() && b.IsConst() && b.i != 0 {
			return tb.Int(a.i / b.i)
		}
		if b.IsConst() && b.i == 1 {
			return a
		}
		return tb.mk(ODiv, SInt, "", a, b)
	}
	if !tb.fmode && (isSpec(a) || isSpec(b)) {
		if b.IsConst() && b.spec != spNone && b.spec != spNaN && !isSpec(a) {
			return tb.Float(0) // finite / inf
		}
		return tb.specArith(ODiv, a, b)
	}
	if a.IsConst() && b.IsConst() {
		if tb.fmode {
			return tb.Float(a.f / b.f)
		}
		if b.r.Sign() != 0 {
			return tb.Rat(new(big.Rat).Quo(a.r, b.r))
		}
		// c/0 in the R-model: NaN for 0/0, +-Inf otherwise (IEEE result)
		switch a.r.Sign() {
		case 0:
			return tb.floatSpec(spNaN)
		case 1:
			return tb.floatSpec(spPInf)
		default:
			return tb.floatSpec(spNInf)
		}
	}
	if !tb.fmode && b.IsConst() && b.r.Sign() != 0 {
		if b.r.Cmp(big.NewRat(1, 1)) == 0 {
			return a
		}
		// x / c  ->  x * (1/c)   keeps the query linear
		return tb.Mul(a, tb.Rat(new(big.Rat).Inv(b.r)))
	}
	return tb.mk(ODiv, SFloat, "", a, b)
}
func (tb *TB) Rem(a, b *Term) *Term {
	if a.IsConst() && b.IsConst() && b.i != 0 {
		return tb.Int(a.i % b.i)
	}
	return tb.mk(ORem, SInt, "", a, b)
}
func (tb *TB) Neg(a *Term) *Term {
	if a.sort == SInt {
		if a.IsConst() {
			return tb.Int(-a.i)
		}
		return tb.mk(ONeg, SInt, "", a)
	}
	if a.IsConst() {
		if tb.fmode {
			return tb.Float(-a.f)
		}
		switch a.spec {
		case spNaN:
			return a
		case spPInf:
			return tb.floatSpec(spNInf)
		case spNInf:
			return tb.floatSpec(spPInf)
		}
		return tb.Rat(new(big.Rat).Neg(a.r))
	}
	if a.op == ONeg {
		if !tb.fmode {
			return a.args[0]
		}
	}
	return tb.mk(ONeg, SFloat, "", a)
}
func (tb *TB) Abs(a *Term) *Term {
	if a.IsConst() {
		if a.sort == SInt {
			if a.i < 0 {
				return tb.Int(-a.i)
			}
			return a
		}
		if tb.fmode {
			return tb.Float(math.Abs(a.f))
		}
		switch a.spec {
		case spNaN:
			return a
		case spPInf, spNInf:
			return tb.floatSpec(spPInf)
		}
		return tb.Rat(new(big.Rat).Abs(a.r))
	}
	return tb.mk(OAbs, a.sort, "", a)
}
func (tb *TB) I2F(a *Term) *Term {
	if a.IsConst() {
		if tb.fmode {
			return tb.Float(float64(a.i))
		}
		return tb.Rat(new(big.Rat).SetInt64(a.i))
	}
	return tb.mk(OI2F, SFloat, "", a)
}

// F2I truncates toward zero (Go conversion semantics for in-range values).
func (tb *TB) F2I(a *Term) *Term {
	if a.IsConst() {
		if tb.fmode {
			return tb.Int(int64(a.f))
		}
		if a.spec != spNone {
			tb.note("conversion of NaN/Inf to int")
			return tb.Int(math.MinInt64)
		}
		q := new(big.Int).Quo(a.r.Num(), a.r.Denom()) // truncated
		return tb.Int(q.Int64())
	}
	if a.op == OI2F {
		return a.args[0]
	}
	return tb.mk(OF2I, SInt, "", a)
}
func (tb *TB) Floor(a *Term) *Term {
	if a.IsConst() {
		if tb.fmode {
			return tb.Float(math.Floor(a.f))
		}
		if a.spec != spNone {
			return a
		}
		n, d := a.r.Num(), a.r.Denom()
		q := new(big.Int).Div(n, d) // Euclidean; d>0 so this is floor
		return tb.Rat(new(big.Rat).SetInt(q))
	}
	return tb.mk(OFloor, SFloat, "", a)
}
func (tb *TB) Sqrt(a *Term) *Term {
	if a.IsConst() && tb.fmode {
		return tb.Float(math.Sqrt(a.f))
	}
	if a.IsConst() && a.spec == spNone {
		// exact square roots of rationals fold; others stay symbolic
		if a.r.Sign() >= 0 {
			n := new(big.Int).Sqrt(a.r.Num())
			d := new(big.Int).Sqrt(a.r.Denom())
			if new(big.Int).Mul(n, n).Cmp(a.r.Num()) == 0 && new(big.Int).Mul(d, d).Cmp(a.r.Denom()) == 0 {
				return tb.Rat(new(big.Rat).SetFrac(n, d))
			}
		}
	}
	return tb.mk(OSqrt, SFloat, "", a)
}
func (tb *TB) UF(name string, args ...*Term) *Term { return tb.mk(OUF, SFloat, name, args...) }
func (tb *TB) IsNaN(a *Term) *Term {
	if a.IsConst() {
		if tb.fmode {
			return tb.Bool(math.IsNaN(a.f))
		}
		return tb.Bool(a.spec == spNaN)
	}
	if !tb.fmode {
		return tb.fls // real-valued terms are never NaN in the R-model (stated limitation)
	}
	return tb.mk(OIsNaN, SBool, "", a)
}
func (tb *TB) IsInf(a *Term) *Term {
	if a.IsConst() {
		if tb.fmode {
			return tb.Bool(math.IsInf(a.f, 0))
		}
		return tb.Bool(a.spec == spPInf || a.spec == spNInf)
	}
	if !tb.fmode {
		return tb.fls
	}
	return tb.mk(OIsInf, SBool, "", a)
}
func (tb *TB) Signbit(a *Term) *Term {
	if a.IsConst() {
		if tb.fmode {
			return tb.Bool(math.Signbit(a.f))
		}
		if a.spec == spNInf {
			return tb.tru
		}
		if a.spec != spNone {
			return tb.fls
		}
		return tb.Bool(a.r.Sign() < 0)
	}
	if !tb.fmode {
		return tb.Lt(a, tb.Float(0)) // no negative zero among the reals
	}
	return tb.mk(OSignbit, SBool, "", a)
}

// ---------- SMT-LIB2 printing ----------

func (tb *TB) sortName(s Sort) string {
	switch s {
	case SBool:
		return "Bool"
	case SInt:
		return "Int"
	}
	if tb.fmode {
		return "(_ FloatingPoint 11 53)"
	}
	return "Real"
}

func smtInt(i int64) string {
	if i < 0 {
		if i == math.MinInt64 {
			return "(- 9223372036854775808)"
		}
		return fmt.Sprintf("(- %d)", -i)
	}
	return fmt.Sprintf("%d", i)
}

func smtRat(r *big.Rat) string {
	neg := r.Sign() < 0
	a := new(big.Rat).Abs(r)
	var s string
	if a.IsInt() {
		s = a.Num().String() + ".0"
	} else {
		s = "(/ " + a.Num().String() + ".0 " + a.Denom().String() + ".0)"
	}
	if neg {
		return "(- " + s + ")"
	}
	return s
}

func smtFP(f float64) string {
	b := math.Float64bits(f)
	return fmt.Sprintf("(fp #b%01b #b%011b #b%052b)", b>>63, (b>>52)&0x7ff, b&((1<<52)-1))
}

// varName returns the SMT identifier of a variable.
func varName(t *Term) string { return "|" + t.name + "|" }

// Print renders a term as an SMT-LIB2 expression with let-bound sharing.
func (tb *TB) Print(root *Term) string {
	// count uses
	uses := map[*Term]int{}
	var order []*Term
	var walk func(t *Term)
	walk = func(t *Term) {
		uses[t]++
		if uses[t] > 1 {
			return
		}
		for _, a := range t.args {
			walk(a)
		}
		order = append(order, t) // post-order
	}
	walk(root)
	names := map[*Term]string{}
	var sb strings.Builder
	nlet := 0
	var expr func(t *Term) string
	ref := func(t *Term) string {
		if n, ok := names[t]; ok {
			return n
		}
		return expr(t)
	}
	expr = func(t *Term) string {
		a := func(i int) string { return ref(t.args[i]) }
		switch t.op {
		case OConst:
			switch t.sort {
			case SBool:
				if t.b {
					return "true"
				}
				return "false"
			case SInt:
				return smtInt(t.i)
			default:
				if tb.fmode {
					return smtFP(t.f)
				}
				if t.spec != spNone {
					// cannot be expressed over the reals; callers avoid this. Use a fresh marker.
					return fmt.Sprintf("|$special%d|", t.spec)
				}
				return smtRat(t.r)
			}
		case OVar:
			return varName(t)
		case ONot:
			return "(not " + a(0) + ")"
		case OAnd:
			return "(and " + a(0) + " " + a(1) + ")"
		case OOr:
			return "(or " + a(0) + " " + a(1) + ")"
		case OIte:
			return "(ite " + a(0) + " " + a(1) + " " + a(2) + ")"
		case OEq:
			if t.args[0].sort == SFloat && tb.fmode {
				return "(fp.eq " + a(0) + " " + a(1) + ")"
			}
			return "(= " + a(0) + " " + a(1) + ")"
		case OLt, OLe:
			n := map[Op]string{OLt: "<", OLe: "<="}[t.op]
			if t.args[0].sort == SFloat && tb.fmode {
				n = map[Op]string{OLt: "fp.lt", OLe: "fp.leq"}[t.op]
			}
			return "(" + n + " " + a(0) + " " + a(1) + ")"
		case OAdd, OSub, OMul:
			if t.sort == SFloat && tb.fmode {
				n := map[Op]string{OAdd: "fp.add", OSub: "fp.sub", OMul: "fp.mul"}[t.op]
				return "(" + n + " RNE " + a(0) + " " + a(1) + ")"
			}
			n := map[Op]string{OAdd: "+", OSub: "-", OMul: "*"}[t.op]
			return "(" + n + " " + a(0) + " " + a(1) + ")"
		case ODiv:
			if t.sort == SFloat {
				if tb.fmode {
					return "(fp.div RNE " + a(0) + " " + a(1) + ")"
				}
				return "(/ " + a(0) + " " + a(1) + ")"
			}
			return "(gotdiv " + a(0) + " " + a(1) + ")"
		case ORem:
			return "(gotrem " + a(0) + " " + a(1) + ")"
		case ONeg:
			if t.sort == SFloat && tb.fmode {
				return "(fp.neg " + a(0) + ")"
			}
			return "(- " + a(0) + ")"
		case OAbs:
			if t.sort == SFloat && tb.fmode {
				return "(fp.abs " + a(0) + ")"
			}
			if t.sort == SInt {
				return "(abs " + a(0) + ")"
			}
			return "(ite (>= " + a(0) + " 0.0) " + a(0) + " (- " + a(0) + "))"
		case OI2F:
			if tb.fmode {
				return "((_ to_fp 11 53) RNE (to_real " + a(0) + "))"
			}
			return "(to_real " + a(0) + ")"
		case OF2I:
			if tb.fmode {
				return "(gof2i " + a(0) + ")"
			}
			return "(ite (>= " + a(0) + " 0.0) (to_int " + a(0) + ") (- (to_int (- " + a(0) + "))))"
		case OFloor:
			if tb.fmode {
				return "(fp.roundToIntegral RTN " + a(0) + ")"
			}
			return "(to_real (to_int " + a(0) + "))"
		case OSqrt:
			if tb.fmode {
				return "(fp.sqrt RNE " + a(0) + ")"
			}
			return "(rsqrt " + a(0) + ")"
		case OUF:
			s := "(|uf_" + t.name + "|"
			for i := range t.args {
				s += " " + a(i)
			}
			return s + ")"
		case OIsNaN:
			return "(fp.isNaN " + a(0) + ")"
		case OIsInf:
			return "(fp.isInfinite " + a(0) + ")"
		case OSignbit:
			return "(fp.isNegative " + a(0) + ")"
		}
		panic("print: unknown op")
	}
	for _, t := range order {
		if t == root {
			break
		}
		if uses[t] > 1 && len(t.args) > 0 {
			e := expr(t)
			n := fmt.Sprintf("?t%d", t.id)
			fmt.Fprintf(&sb, "(let ((%s %s)) ", n, e)
			names[t] = n
			nlet++
		}
	}
	sb.WriteString(expr(root))
	sb.WriteString(strings.Repeat(")", nlet))
	return sb.String()
}

// symInfo gathers what a set of assertions mentions, for declarations and axiom instances.
type symInfo struct {
	seen  map[*Term]bool
	vars  map[string]*Term
	ufs   map[string]int
	apps  map[string][]*Term // UF name -> applications
	sqrts []*Term
	idiv  bool
	f2i   bool
	spec  bool
}

func newSymInfo() *symInfo {
	return &symInfo{seen: map[*Term]bool{}, vars: map[string]*Term{}, ufs: map[string]int{}, apps: map[string][]*Term{}}
}

func (si *symInfo) collect(t *Term) {
	if si.seen[t] {
		return
	}
	si.seen[t] = true
	switch t.op {
	case OVar:
		si.vars[t.name] = t
	case OUF:
		si.ufs[t.name] = len(t.args)
		si.apps[t.name] = append(si.apps[t.name], t)
	case OSqrt:
		si.sqrts = append(si.sqrts, t)
	case ODiv, ORem:
		if t.sort == SInt {
			si.idiv = true
		}
	case OF2I:
		si.f2i = true
	case OConst:
		if t.sort == SFloat && t.spec != spNone {
			si.spec = true
		}
	}
	for _, a := range t.args {
		si.collect(a)
	}
}

func sortedKeys[V any](m map[string]V) []string {
	ks := make([]string, 0, len(m))
	for k := range m {
		ks = append(ks, k)
	}
	sort.Strings(ks)
	return ks
}

func (t *Term) String() string {
	switch t.op {
	case OConst:
		switch t.sort {
		case SBool:
			return fmt.Sprint(t.b)
		case SInt:
			return fmt.Sprint(t.i)
		default:
			if t.r != nil {
				f, _ := t.r.Float64()
				return fmt.Sprint(f)
			}
			if t.spec != spNone {
				return [...]string{"", "NaN", "+Inf", "-Inf"}[t.spec]
			}
			return fmt.Sprint(t.f)
		}
	case OVar:
		return t.name
	}
	s := "(" + opNames[t.op]
	if t.op == OUF {
		s += ":" + t.name
	}
	for _, a := range t.args {
		s += " " + a.String()
	}
	return s + ")"
}
