package main

// Path exploration: a shared LIFO of decision prefixes, N workers, each with its own term builder and
// solver process. Exploration is exhaustive for the harness bounds; VERIF_SEED only permutes the order.

import (
	"fmt"
	"runtime/debug"
	"sort"
	"strings"
	"sync"
	"time"

	"golang.org/x/tools/go/ssa"
)

type Config struct {
	FMode         bool
	Solver        string
	TimeoutMs     int
	MaxEnum       int
	MaxDepth      int
	MaxSteps      int
	Unwind        int
	MaxPaths      int
	CheckOverflow bool
	ForkMapOrder  bool
	GoInline      bool
	GoThreads     bool // go statements start logical threads (run to completion at the statement; schedule query over all of them)
	AccessLog     bool
	Workers       int
	InitPrefixes  []string
	redirects     map[string]*ssa.Function
	StopAfterViol int // stop exploring an entry once this many violations were found (they are replayed next)
	NoMerge       bool
	NoEvalSkip    bool
	MergeInts     bool
	AllowCuts     bool // bound-exceeded paths are declared assumption cuts by the harness config
	Seed          int64
	Deadline      time.Time
}

func (c *Config) initPkg(path string) bool {
	for _, p := range c.InitPrefixes {
		if strings.HasPrefix(path, p) {
			return true
		}
	}
	return false
}

type WorkerStats struct {
	Obligations  int
	Discharged   int
	Inconclusive []string
}

type Worker struct {
	tb        *TB
	solver    *Solver
	stats     WorkerStats
	stubsUsed map[string]int
	deadline  time.Time
}

func (w *Worker) check(asserts []*Term, wants []*Term) (string, []ModelVal) {
	if !w.deadline.IsZero() && time.Now().After(w.deadline) {
		return "unknown", nil // time budget of the entry exhausted: drain quickly, the run is reported inconclusive
	}
	return w.solver.Check(asserts, wants)
}

type PathSample struct {
	Decisions []int         `json:"decisions"`
	End       string        `json:"end"`
	Script    []ScriptVal   `json:"inputs,omitempty"`
	Observed  []ObservedVal `json:"observed,omitempty"`
	Steps     int           `json:"steps"`
}

type RunResult struct {
	Entry        string
	Paths        int
	Ends         map[string]int
	EndMsgs      map[string]int
	Reached      map[string]int
	Asserts      map[string]int
	Violations   []*Violation
	Notes        map[string]int
	Branches     int
	Steps        int
	NdSources    int
	NdPaths      int
	Funcs        map[string]bool
	Stubs        map[string]int
	Obligations  int
	Discharged   int
	Inconclusive []string
	Solver       SolverStats
	Wall         time.Duration
	Samples      []PathSample
	Witnesses    []PathSample // for translator validation
	UnknownFeas  int
	Merges       int
	EvalSkips    int
	MergeAborts  int
	MaxPathsHit  bool
	StoppedEarly bool
	Traces       []*ThreadTrace
	OvfSat       int
}

type explorer struct {
	mu      sync.Mutex
	cond    *sync.Cond
	stack   [][]int
	pending int
	stopped bool
	res     *RunResult
}

func (e *explorer) push(p []int) {
	e.mu.Lock()
	e.stack = append(e.stack, p)
	e.pending++
	e.mu.Unlock()
	e.cond.Signal()
}

func (e *explorer) pop() ([]int, bool) {
	e.mu.Lock()
	defer e.mu.Unlock()
	for len(e.stack) == 0 && e.pending > 0 && !e.stopped {
		e.cond.Wait()
	}
	if len(e.stack) == 0 || e.stopped {
		return nil, false
	}
	p := e.stack[len(e.stack)-1]
	e.stack = e.stack[:len(e.stack)-1]
	return p, true
}

func (e *explorer) done() {
	e.mu.Lock()
	e.pending--
	fin := e.pending == 0
	e.mu.Unlock()
	if fin {
		e.cond.Broadcast()
	}
}

// Explore runs the entry function over all paths.
func Explore(prog *ssa.Program, entry *ssa.Function, initFn []*ssa.Function, cfg *Config) *RunResult {
	t0 := time.Now()
	res := &RunResult{Entry: entry.String(), Ends: map[string]int{}, EndMsgs: map[string]int{}, Reached: map[string]int{}, Asserts: map[string]int{}, Notes: map[string]int{}, Funcs: map[string]bool{}, Stubs: map[string]int{}}
	e := &explorer{res: res}
	e.cond = sync.NewCond(&e.mu)
	e.push([]int{})
	var wg sync.WaitGroup
	nw := cfg.Workers
	if nw <= 0 {
		nw = 1
	}
	var rmu sync.Mutex
	for wi := 0; wi < nw; wi++ {
		wg.Add(1)
		go func(wi int) {
			defer wg.Done()
			tb := NewTB(cfg.FMode)
			solver, err := NewSolver(cfg.Solver, tb, cfg.TimeoutMs)
			if err != nil {
				rmu.Lock()
				res.Inconclusive = append(res.Inconclusive, "solver start: "+err.Error())
				rmu.Unlock()
				e.mu.Lock()
				e.stopped = true
				e.mu.Unlock()
				e.cond.Broadcast()
				return
			}
			defer solver.Close()
			w := &Worker{tb: tb, solver: solver, stubsUsed: map[string]int{}, deadline: cfg.Deadline}
			for {
				prefix, ok := e.pop()
				if !ok {
					break
				}
				in := runPath(prog, entry, initFn, cfg, w, prefix, e.push)
				rmu.Lock()
				mergePath(res, in, cfg)
				stop := false
				if cfg.MaxPaths > 0 && res.Paths >= cfg.MaxPaths {
					res.MaxPathsHit = true
					stop = true
				}
				if cfg.StopAfterViol > 0 && len(res.Violations) >= cfg.StopAfterViol {
					res.StoppedEarly = true
					stop = true
				}
				if !cfg.Deadline.IsZero() && time.Now().After(cfg.Deadline) {
					res.Inconclusive = append(res.Inconclusive, "time budget exhausted before all paths were explored")
					stop = true
				}
				rmu.Unlock()
				if stop {
					e.mu.Lock()
					e.stopped = true
					e.mu.Unlock()
					e.cond.Broadcast()
				}
				e.done()
			}
			rmu.Lock()
			res.Obligations += w.stats.Obligations
			res.Discharged += w.stats.Discharged
			res.Inconclusive = append(res.Inconclusive, w.stats.Inconclusive...)
			st := solver.Stats
			res.Solver.Queries += st.Queries
			res.Solver.Sat += st.Sat
			res.Solver.Unsat += st.Unsat
			res.Solver.Unknown += st.Unknown
			res.Solver.Errors += st.Errors
			res.Solver.Time += st.Time
			if st.MaxQuery > res.Solver.MaxQuery {
				res.Solver.MaxQuery = st.MaxQuery
			}
			for k, v := range w.stubsUsed {
				res.Stubs[k] += v
			}
			for k, v := range tb.notes {
				res.Notes["term: "+k] += v
			}
			rmu.Unlock()
		}(wi)
	}
	wg.Wait()
	res.Wall = time.Since(t0)
	return res
}

type pathRun struct {
	in  *Interp
	end pathEnd
}

func runPath(prog *ssa.Program, entry *ssa.Function, initFn []*ssa.Function, cfg *Config, w *Worker, prefix []int, spawn func([]int)) (pr *pathRun) {
	in := &Interp{w: w, tb: w.tb, prog: prog, cfg: cfg, prefix: prefix, spawn: spawn,
		globals: map[*ssa.Global]*Object{}, reached: map[string]int{}, asserts: map[string]int{}, notes: map[string]int{}, cuts: map[string]int{},
		model: Model{}, funcsHit: map[*ssa.Function]bool{}, loopCnt: map[*ssa.BasicBlock]int{}, harnessState: map[string]Value{}}
	if cfg.AccessLog {
		in.access = &accessLog{}
	}
	pr = &pathRun{in: in, end: pathEnd{kind: endOK}}
	defer func() {
		if r := recover(); r != nil {
			if pe, ok := r.(pathEnd); ok {
				pr.end = pe
				return
			}
			pr.end = pathEnd{endUnsupported, fmt.Sprintf("engine panic: %v\n%s", r, trunc(string(debug.Stack()), 1500))}
		}
	}()
	for _, f := range initFn {
		in.callFn(f, nil, nil)
	}
	in.steps = 0
	in.callFn(entry, nil, nil)
	// schedule queries for this path's thread pairs (C16)
	for _, prn := range in.parRuns {
		if desc, race := in.raceQuery(prn); race {
			_, script, obs := in.modelScript(nil)
			in.viols = append(in.viols, &Violation{Msg: desc, Decisions: append([]int{}, in.decisions...), Script: script, Kind: "race", Observed: obs})
		}
	}
	if len(in.goThreads) > 1 {
		if desc, race := in.raceQueryN(in.goThreads); race {
			_, script, obs := in.modelScript(nil)
			in.viols = append(in.viols, &Violation{Msg: desc, Decisions: append([]int{}, in.decisions...), Script: script, Kind: "race", Observed: obs})
		}
	}
	// overflow obligations for this path
	if cfg.CheckOverflow && len(in.ovf) > 0 {
		tb := in.tb
		bad := tb.fls
		lim := tb.Int(1 << 62)
		for _, t := range in.ovf {
			bad = tb.Or(bad, tb.Or(tb.Lt(lim, t), tb.Lt(t, tb.Neg(lim))))
		}
		res, _ := w.check(append(append([]*Term{}, in.pc...), bad), nil)
		if res != "unsat" {
			in.note("integer overflow obligation not discharged: " + trunc(res, 40))
			in.w.stats.Inconclusive = append(in.w.stats.Inconclusive, "integer overflow obligation: "+trunc(res, 60))
		}
	}
	return pr
}

func mergePath(res *RunResult, pr *pathRun, cfg *Config) {
	in := pr.in
	res.Paths++
	res.Ends[pr.end.kind.String()]++
	if pr.end.kind != endOK {
		res.EndMsgs[pr.end.kind.String()+": "+trunc(pr.end.msg, 300)]++
	}
	for k, v := range in.reached {
		res.Reached[k] += v
	}
	for k, v := range in.asserts {
		res.Asserts[k] += v
	}
	for k, v := range in.notes {
		res.Notes[k] += v
	}
	res.Branches += len(in.decisions)
	res.Steps += in.steps
	res.NdSources += in.ndSrc
	if in.ndSrc > 0 {
		res.NdPaths++
	}
	res.UnknownFeas += in.unknownFeas
	res.Merges += in.merges
	res.EvalSkips += in.evalSkips
	res.MergeAborts += in.mergeAborts
	for f := range in.funcsHit {
		res.Funcs[f.String()] = true
	}
	res.Violations = append(res.Violations, in.viols...)
	switch pr.end.kind {
	case endPanic:
		// a reachable panic in the code under test is a violation candidate (with a model of the path)
		in.w.stats.Obligations++
		r, script, obs := in.modelScript(nil)
		if r == "sat" {
			res.Violations = append(res.Violations, &Violation{Msg: "reachable panic: " + pr.end.msg, Decisions: append([]int{}, in.decisions...), Script: script, Kind: "panic", Observed: obs})
		} else {
			res.Inconclusive = append(res.Inconclusive, "panic path without model: "+pr.end.msg)
		}
	case endUnsupported:
		res.Inconclusive = append(res.Inconclusive, "unsupported: "+trunc(pr.end.msg, 400))
	case endBound:
		if !cfg.AllowCuts {
			res.Inconclusive = append(res.Inconclusive, "bound exceeded: "+trunc(pr.end.msg, 300))
		}
	}
	if in.access != nil && pr.end.kind == endOK {
		res.Traces = append(res.Traces, in.access.traces...)
	}
	if pr.end.kind == endOK && (len(res.Witnesses) < 3 || (len(res.Samples) < 4 && len(in.nondets) > 0)) {
		r, script, obs := in.modelScript(nil)
		if r == "sat" {
			ps := PathSample{Decisions: append([]int{}, in.decisions...), End: "ok", Script: script, Observed: obs, Steps: in.steps}
			if len(res.Samples) < 4 {
				res.Samples = append(res.Samples, ps)
			}
			if len(res.Witnesses) < 3 {
				res.Witnesses = append(res.Witnesses, ps)
			}
		}
	}
}

func sortedCountKeys(m map[string]int) []string {
	ks := make([]string, 0, len(m))
	for k := range m {
		ks = append(ks, k)
	}
	sort.Strings(ks)
	return ks
}
