package main

// C16: the schedule query. Two access traces (one per logical thread) over a shared heap; integer timestamps;
// program order; mutual exclusion of critical sections on the same mutex; a data race is a pair of conflicting
// accesses (same location, at least one write, not both atomic) that can be adjacent in a feasible interleaving.

import (
	"fmt"
	"strings"

	"golang.org/x/tools/go/ssa"
	"golang.org/x/tools/go/ssa/ssautil"
)

func ssautilAllFunctions(p *ssa.Program) map[*ssa.Function]bool { return ssautil.AllFunctions(p) }

// kept for the check driver's signature (races are reported as ordinary violations now)
func scheduleQueries(traces []*ThreadTrace, cfg *Config) (int, []string) { return 0, nil }

type parRun struct {
	A, B   *ThreadTrace
	shared map[*Object]bool
}

func conflicting(a, b AccessEvent) bool {
	if a.Loc != b.Loc {
		return false
	}
	isAcc := func(k string) bool { return k == "read" || k == "write" || k == "atomic" }
	if !isAcc(a.Kind) || !isAcc(b.Kind) {
		return false
	}
	if a.Kind == "read" && b.Kind == "read" {
		return false
	}
	if a.Kind == "atomic" && b.Kind == "atomic" {
		return false
	}
	return true
}

// raceQuery returns ("", n) if no schedule exhibits a race, or a description of one.
func (in *Interp) raceQuery(pr parRun) (string, bool) {
	filter := func(t *ThreadTrace) []AccessEvent {
		var out []AccessEvent
		for _, e := range t.Events {
			if e.Kind == "acquire" || e.Kind == "release" || pr.shared[e.obj] {
				out = append(out, e)
			}
		}
		return out
	}
	A, B := filter(pr.A), filter(pr.B)
	var pairs [][2]int
	for i, a := range A {
		for j, b := range B {
			if conflicting(a, b) {
				pairs = append(pairs, [2]int{i, j})
			}
		}
	}
	in.w.stats.Obligations++
	if len(pairs) == 0 {
		in.w.stats.Discharged++
		return "", false
	}
	var sb strings.Builder
	sb.WriteString("(push 1)\n")
	name := func(th string, i int) string { return fmt.Sprintf("t%s%d", th, i) }
	var all []string
	for i := range A {
		fmt.Fprintf(&sb, "(declare-const %s Int)\n", name("a", i))
		all = append(all, name("a", i))
		if i > 0 {
			fmt.Fprintf(&sb, "(assert (< %s %s))\n", name("a", i-1), name("a", i))
		}
	}
	for j := range B {
		fmt.Fprintf(&sb, "(declare-const %s Int)\n", name("b", j))
		all = append(all, name("b", j))
		if j > 0 {
			fmt.Fprintf(&sb, "(assert (< %s %s))\n", name("b", j-1), name("b", j))
		}
	}
	if len(all) > 1 {
		fmt.Fprintf(&sb, "(assert (distinct %s))\n", strings.Join(all, " "))
	}
	// critical sections
	type cs struct{ acq, rel int }
	sections := func(ev []AccessEvent) map[string][]cs {
		m := map[string][]cs{}
		open := map[string]int{}
		for i, e := range ev {
			switch e.Kind {
			case "acquire":
				open[e.Loc] = i
			case "release":
				if a, ok := open[e.Loc]; ok {
					m[e.Loc] = append(m[e.Loc], cs{a, i})
					delete(open, e.Loc)
				}
			}
		}
		for loc, a := range open { // still held at the end of the trace
			m[loc] = append(m[loc], cs{a, len(ev) - 1})
		}
		return m
	}
	sa, sbb := sections(A), sections(B)
	for mu, as := range sa {
		for _, x := range as {
			for _, y := range sbb[mu] {
				fmt.Fprintf(&sb, "(assert (or (< %s %s) (< %s %s)))\n", name("a", x.rel), name("b", y.acq), name("b", y.rel), name("a", x.acq))
			}
		}
	}
	sb.WriteString("(assert (or")
	for _, p := range pairs {
		fmt.Fprintf(&sb, " (= (- %s %s) 1) (= (- %s %s) 1)", name("a", p[0]), name("b", p[1]), name("b", p[1]), name("a", p[0]))
	}
	sb.WriteString("))\n(check-sat)")
	out, err := in.w.solver.roundTrip(sb.String())
	res := "error"
	if err == nil {
		res = classify(out)
	}
	desc := ""
	if res == "sat" {
		// find which pair is adjacent
		var q strings.Builder
		q.WriteString("(get-value (")
		for _, n := range all {
			q.WriteString(n + " ")
		}
		q.WriteString("))")
		vout, _ := in.w.solver.roundTrip(q.String())
		vals := map[string]int64{}
		if es := parseSexp(vout); len(es) > 0 && es[0].isList() {
			for _, pr := range es[0].list {
				if pr.isList() && len(pr.list) == 2 {
					if r, ok := sexpRat(pr.list[1]); ok && r.IsInt() {
						vals[pr.list[0].atom] = r.Num().Int64()
					}
				}
			}
		}
		for _, p := range pairs {
			d := vals[name("a", p[0])] - vals[name("b", p[1])]
			if d == 1 || d == -1 {
				a, b := A[p[0]], B[p[1]]
				desc = fmt.Sprintf("data race on %s: thread %s %s at %s / thread %s %s at %s", a.Loc, pr.A.Name, a.Kind, a.Site, pr.B.Name, b.Kind, b.Site)
				break
			}
		}
		if desc == "" {
			desc = "data race (schedule found)"
		}
	}
	in.w.solver.roundTrip("(pop 1)")
	in.w.solver.Stats.Queries++
	switch res {
	case "unsat":
		in.w.stats.Discharged++
		return "", false
	case "sat":
		return desc, true
	}
	in.w.stats.Inconclusive = append(in.w.stats.Inconclusive, "schedule query: "+trunc(res, 100))
	return "", false
}
