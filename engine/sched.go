package main

// C16: the schedule query. Two access traces (one per logical thread) over a shared heap; integer timestamps;
// program order; mutual exclusion of critical sections on the same mutex; a data race is a pair of conflicting
// accesses (same location, at least one write, not both atomic) that can be adjacent in a feasible interleaving.

import (
	"fmt"
	"strings"

	"golang.org/x/tools/go/ssa"
	"golang.org/x/tools/go/ssa/ssautil"
)

func ssautilAllFunctions(p *ssa.Program) map[*ssa.Function]bool { return ssautil.AllFunctions(p) }

// kept for the check driver's signature (races are reported as ordinary violations now)
func scheduleQueries(traces []*ThreadTrace, cfg *Config) (int, []string) { return 0, nil }

type parRun struct {
	A, B   *ThreadTrace
	shared map[*Object]bool
}

func conflicting(a, b AccessEvent) bool {
	if a.Loc != b.Loc {
		return false
	}
	isAcc := func(k string) bool { return k == "read" || k == "write" || k == "atomic" }
	if !isAcc(a.Kind) || !isAcc(b.Kind) {
		return false
	}
	if a.Kind == "read" && b.Kind == "read" {
		return false
	}
	if a.Kind == "atomic" && b.Kind == "atomic" {
		return false
	}
	return true
}

// raceQuery returns ("", n) if no schedule exhibits a race, or a description of one.
func (in *Interp) raceQuery(pr parRun) (string, bool) {
	filter := func(t *ThreadTrace) []AccessEvent {
		var out []AccessEvent
		for _, e := range t.Events {
			if e.Kind == "acquire" || e.Kind == "release" || pr.shared[e.obj] {
				out = append(out, e)
			}
		}
		return out
	}
	A, B := filter(pr.A), filter(pr.B)
	var pairs [][2]int
	for i, a := range A {
		for j, b := range B {
			if conflicting(a, b) {
				pairs = append(pairs, [2]int{i, j})
			}
		}
	}
	in.w.stats.Obligations++
	if len(pairs) == 0 {
		in.w.stats.Discharged++
		return "", false
	}
	var sb strings.Builder
	sb.WriteString("(push 1)\n")
	name := func(th string, i int) string { return fmt.Sprintf("t%s%d", th, i) }
	var all []string
	for i := range A {
		fmt.Fprintf(&sb, "(declare-const %s Int)\n", name("a", i))
		all = append(all, name("a", i))
		if i > 0 {
			fmt.Fprintf(&sb, "(assert (< %s %s))\n", name("a", i-1), name("a", i))
		}
	}
	for j := range B {
		fmt.Fprintf(&sb, "(declare-const %s Int)\n", name("b", j))
		all = append(all, name("b", j))
		if j > 0 {
			fmt.Fprintf(&sb, "(assert (< %s %s))\n", name("b", j-1), name("b", j))
		}
	}
	if len(all) > 1 {
		fmt.Fprintf(&sb, "(assert (distinct %s))\n", strings.Join(all, " "))
	}
	// critical sections
	type cs struct{ acq, rel int }
	sections := func(ev []AccessEvent) map[string][]cs {
		m := map[string][]cs{}
		open := map[string]int{}
		for i, e := range ev {
			switch e.Kind {
			case "acquire":
				open[e.Loc] = i
			case "release":
				if a, ok := open[e.Loc]; ok {
					m[e.Loc] = append(m[e.Loc], cs{a, i})
					delete(open, e.Loc)
				}
			}
		}
		for loc, a := range open { // still held at the end of the trace
			m[loc] = append(m[loc], cs{a, len(ev) - 1})
		}
		return m
	}
	sa, sbb := sections(A), sections(B)
	for mu, as := range sa {
		for _, x := range as {
			for _, y := range sbb[mu] {
				fmt.Fprintf(&sb, "(assert (or (< %s %s) (< %s %s)))\n", name("a", x.rel), name("b", y.acq), name("b", y.rel), name("a", x.acq))
			}
		}
	}
	sb.WriteString("(assert (or")
	for _, p := range pairs {
		fmt.Fprintf(&sb, " (= (- %s %s) 1) (= (- %s %s) 1)", name("a", p[0]), name("b", p[1]), name("b", p[1]), name("a", p[0]))
	}
	sb.WriteString("))\n(check-sat)")
	out, err := in.w.solver.roundTrip(sb.String())
	res := "error"
	if err == nil {
		res = classify(out)
	}
	desc := ""
	if res == "sat" {
		// find which pair is adjacent
		var q strings.Builder
		q.WriteString("(get-value (")
		for _, n := range all {
			q.WriteString(n + " ")
		}
		q.WriteString("))")
		vout, _ := in.w.solver.roundTrip(q.String())
		vals := map[string]int64{}
		if es := parseSexp(vout); len(es) > 0 && es[0].isList() {
			for _, pr := range es[0].list {
				if pr.isList() && len(pr.list) == 2 {
					if r, ok := sexpRat(pr.list[1]); ok && r.IsInt() {
						vals[pr.list[0].atom] = r.Num().Int64()
					}
				}
			}
		}
		for _, p := range pairs {
			d := vals[name("a", p[0])] - vals[name("b", p[1])]
			if d == 1 || d == -1 {
				a, b := A[p[0]], B[p[1]]
				desc = fmt.Sprintf("data race on %s: thread %s %s at %s / thread %s %s at %s", a.Loc, pr.A.Name, a.Kind, a.Site, pr.B.Name, b.Kind, b.Site)
				break
			}
		}
		if desc == "" {
			desc = "data race (schedule found)"
		}
	}
	in.w.solver.roundTrip("(pop 1)")
	in.w.solver.Stats.Queries++
	switch res {
	case "unsat":
		in.w.stats.Discharged++
		return "", false
	case "sat":
		return desc, true
	}
	in.w.stats.Inconclusive = append(in.w.stats.Inconclusive, "schedule query: "+trunc(res, 100))
	return "", false
}

// ---------- go-statement mode: N logical threads ----------
//
// A go statement starts a logical thread: the engine runs its body to completion at the statement (recording its
// access trace) and then continues the spawning thread. The schedule query ranges over integer timestamps for all
// recorded events of all threads, constrained by program order, spawn edges (go statement -> first event of the
// child), WaitGroup edges (every Done -> the Wait that returned after it), channel edges (k-th send -> k-th receive,
// close -> receive of the closed flag) and mutual exclusion of critical sections; a data race is a pair of
// conflicting accesses of different threads that some such schedule makes adjacent.

func (in *Interp) goStmt(fr *frame, x *ssa.Go) {
	if in.access == nil {
		in.access = &accessLog{}
	}
	if len(in.goThreads) == 0 {
		main := &ThreadTrace{Name: "main", id: 0}
		in.goThreads = append(in.goThreads, main)
		in.access.cur = main
		in.access.syncEvent("start", "", "", 0)
	}
	if in.specDepth > 0 {
		panic(specAbort{"go statement"})
	}
	call := in.prepareCall(fr, &x.Call, in.at(x))
	child := &ThreadTrace{Name: fmt.Sprintf("goroutine %d (started at %s)", len(in.goThreads), in.at(x)), id: len(in.goThreads)}
	in.access.syncEvent("spawn", "", in.at(x), child.id)
	in.goThreads = append(in.goThreads, child)
	parent := in.access.cur
	in.access.cur = child
	in.access.syncEvent("start", "", "", 0)
	call()
	in.access.cur = parent
}

func isSyncKind(k string) bool {
	switch k {
	case "acquire", "release", "spawn", "start", "done", "wait", "chsend", "chrecv", "chclose":
		return true
	}
	return false
}

func (in *Interp) raceQueryN(threads []*ThreadTrace) (string, bool) {
	// contested locations: accessed by more than one thread, not only read
	type locInfo struct {
		threads map[int]bool
		written bool
	}
	locs := map[string]*locInfo{}
	for _, t := range threads {
		for _, e := range t.Events {
			if isSyncKind(e.Kind) {
				continue
			}
			li := locs[e.Loc]
			if li == nil {
				li = &locInfo{threads: map[int]bool{}}
				locs[e.Loc] = li
			}
			li.threads[t.id] = true
			if e.Kind != "read" {
				li.written = true
			}
		}
	}
	type ev struct {
		AccessEvent
		th  int
		idx int
	}
	var evs [][]ev
	total := 0
	for _, t := range threads {
		var l []ev
		for _, e := range t.Events {
			if isSyncKind(e.Kind) || (len(locs[e.Loc].threads) > 1 && locs[e.Loc].written) {
				l = append(l, ev{e, t.id, len(l)})
			}
		}
		evs = append(evs, l)
		total += len(l)
	}
	var pairs [][2]ev
	for i := range evs {
		for j := i + 1; j < len(evs); j++ {
			for _, a := range evs[i] {
				if isSyncKind(a.Kind) {
					continue
				}
				for _, b := range evs[j] {
					if !isSyncKind(b.Kind) && conflicting(a.AccessEvent, b.AccessEvent) {
						pairs = append(pairs, [2]ev{a, b})
					}
				}
			}
		}
	}
	in.w.stats.Obligations++
	if len(pairs) == 0 {
		in.w.stats.Discharged++
		return "", false
	}
	name := func(e ev) string { return fmt.Sprintf("t%d_%d", e.th, e.idx) }
	var sb strings.Builder
	sb.WriteString("(push 1)\n")
	var all []string
	for _, l := range evs {
		for i, e := range l {
			fmt.Fprintf(&sb, "(declare-const %s Int)\n", name(e))
			all = append(all, name(e))
			if i > 0 {
				fmt.Fprintf(&sb, "(assert (< %s %s))\n", name(l[i-1]), name(e))
			}
		}
	}
	if len(all) > 1 {
		fmt.Fprintf(&sb, "(assert (distinct %s))\n", strings.Join(all, " "))
	}
	before := func(a, b ev) { fmt.Fprintf(&sb, "(assert (< %s %s))\n", name(a), name(b)) }
	// spawn, WaitGroup and channel edges
	for _, l := range evs {
		for _, e := range l {
			switch e.Kind {
			case "spawn":
				if e.K < len(evs) && len(evs[e.K]) > 0 {
					before(e, evs[e.K][0])
				}
			case "wait":
				for _, l2 := range evs {
					for _, d := range l2 {
						if d.Kind == "done" && d.Loc == e.Loc && d.th != e.th && d.Seq < e.Seq {
							before(d, e)
						}
					}
				}
			case "chrecv":
				for _, l2 := range evs {
					for _, d := range l2 {
						if d.Loc != e.Loc || d.th == e.th {
							continue
						}
						if (d.Kind == "chsend" && e.K >= 0 && d.K == e.K) || (d.Kind == "chclose" && e.K < 0 && d.Seq < e.Seq) {
							before(d, e)
						}
					}
				}
			}
		}
	}
	// critical sections
	type cs struct{ acq, rel ev }
	sections := func(l []ev) map[string][]cs {
		m := map[string][]cs{}
		open := map[string]ev{}
		for _, e := range l {
			switch e.Kind {
			case "acquire":
				open[e.Loc] = e
			case "release":
				if a, ok := open[e.Loc]; ok {
					m[e.Loc] = append(m[e.Loc], cs{a, e})
					delete(open, e.Loc)
				}
			}
		}
		for loc, a := range open {
			m[loc] = append(m[loc], cs{a, l[len(l)-1]})
		}
		return m
	}
	var secs []map[string][]cs
	for _, l := range evs {
		secs = append(secs, sections(l))
	}
	for i := range secs {
		for j := i + 1; j < len(secs); j++ {
			for mu, as := range secs[i] {
				for _, x := range as {
					for _, y := range secs[j][mu] {
						fmt.Fprintf(&sb, "(assert (or (< %s %s) (< %s %s)))\n", name(x.rel), name(y.acq), name(y.rel), name(x.acq))
					}
				}
			}
		}
	}
	sb.WriteString("(assert (or")
	for _, p := range pairs {
		fmt.Fprintf(&sb, " (= (- %s %s) 1) (= (- %s %s) 1)", name(p[0]), name(p[1]), name(p[1]), name(p[0]))
	}
	sb.WriteString("))\n(check-sat)")
	out, err := in.w.solver.roundTrip(sb.String())
	res := "error"
	if err == nil {
		res = classify(out)
	}
	desc := ""
	if res == "sat" {
		var q strings.Builder
		q.WriteString("(get-value (")
		for _, n := range all {
			q.WriteString(n + " ")
		}
		q.WriteString("))")
		vout, _ := in.w.solver.roundTrip(q.String())
		vals := map[string]int64{}
		if es := parseSexp(vout); len(es) > 0 && es[0].isList() {
			for _, pr := range es[0].list {
				if pr.isList() && len(pr.list) == 2 {
					if r, ok := sexpRat(pr.list[1]); ok && r.IsInt() {
						vals[pr.list[0].atom] = r.Num().Int64()
					}
				}
			}
		}
		for _, p := range pairs {
			d := vals[name(p[0])] - vals[name(p[1])]
			if d == 1 || d == -1 {
				desc = fmt.Sprintf("data race on %s: %s %s at %s / %s %s at %s", p[0].Loc, threads[p[0].th].Name, p[0].Kind, p[0].Site, threads[p[1].th].Name, p[1].Kind, p[1].Site)
				break
			}
		}
		if desc == "" {
			desc = "data race (schedule found)"
		}
	}
	in.w.solver.roundTrip("(pop 1)")
	in.w.solver.Stats.Queries++
	in.note(fmt.Sprintf("schedule query: %d threads, %d events, %d conflicting pairs", len(threads), total, len(pairs)))
	switch res {
	case "unsat":
		in.w.stats.Discharged++
		return "", false
	case "sat":
		return desc, true
	}
	in.w.stats.Inconclusive = append(in.w.stats.Inconclusive, "schedule query: "+trunc(res, 100))
	return "", false
}
