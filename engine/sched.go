package main

import (
	"golang.org/x/tools/go/ssa"
	"golang.org/x/tools/go/ssa/ssautil"
)

func ssautilAllFunctions(p *ssa.Program) map[*ssa.Function]bool { return ssautil.AllFunctions(p) }

// scheduleQueries is defined in sched_query.go once C16 is built.
func scheduleQueries(traces []*ThreadTrace, cfg *Config) (int, []string) { return 0, nil }
